#!/bin/bash
# MANIFEST.setup_cmd: offline; makes sure the python deps are importable and the reference
# codecs pass their self-test.  Everything here is repeated (idempotently) by ./check itself.
cd "$(dirname "$0")" || exit 2
export PIP_NO_INDEX=1 PYTHONDONTWRITEBYTECODE=1
PY="${VERIF_PYTHON:-/venv/bin/python}"
WHEELS=/opt/veriftools/wheels
"$PY" -c "import hypothesis" 2>/dev/null || "$PY" -m pip install --no-index --find-links "$WHEELS" hypothesis || exit 2
if ! PYTHONPATH=.deps "$PY" -c "import atheris" 2>/dev/null; then
  "$PY" -m pip install --no-index --find-links "$WHEELS" --target .deps atheris >/dev/null 2>&1 \
    || echo "setup: atheris not installable; fuzz clauses will be skipped" >&2
fi
"$PY" -B - <<'PYEOF' || exit 2
import sys
sys.path.insert(0, ".")
from vf import deps
deps.ensure()
from vf.ref import selftest
selftest.run()
print("setup ok: reference self-test passed")
PYEOF
