"""C16 - the PUS verification tracker follows its state machine for every report history."""
from __future__ import annotations

import copy

from hypothesis import strategies as st

from ..core import Clause, Dev, HistorySpec, eq, true
from ..prop import Property

UNSET, FAILURE, SUCCESS = -1, 0, 1

# five telecommands: 0,1,2 distinct request ids; 3 shares the request id of 0 (different service and
# payload); 4 is never registered (its request id differs from all others)
TCS = [
    {"apid": 0x22, "seq": 17, "service": 17, "subservice": 1, "data": ""},
    {"apid": 0x22, "seq": 18, "service": 8, "subservice": 128, "data": "0102"},
    {"apid": 0x7FF, "seq": 0x3FFF, "service": 3, "subservice": 5, "data": ""},
    {"apid": 0x22, "seq": 17, "service": 200, "subservice": 9, "data": "ffee"},
    {"apid": 0x23, "seq": 17, "service": 17, "subservice": 1, "data": ""},
    # 5 and 6 differ from 0 in nothing but the CCSDS version bits / the sequence flags: different request ids (the id is all 32 bits)
    {"apid": 0x22, "seq": 17, "service": 17, "subservice": 1, "data": "", "ver": 5},
    {"apid": 0x22, "seq": 17, "service": 17, "subservice": 1, "data": "", "flags": 1},
    # 7: as 0 but with the secondary-header flag cleared in the primary header (only reachable through from_composite_fields / unpack)
    {"apid": 0x22, "seq": 17, "service": 17, "subservice": 1, "data": "", "shf": 0},
]
REGISTRABLE = (0, 1, 2, 3, 5, 6, 7)


def _m():
    from spacepackets.ecss import pus_1_verification as s1
    from spacepackets.ecss.fields import PacketFieldEnum
    from spacepackets.ecss.pus_verificator import PusVerificator
    from spacepackets.ecss.req_id import RequestId
    from spacepackets.ecss.tc import PusTc

    return s1, PacketFieldEnum, PusVerificator, RequestId, PusTc


def new_status():
    return {"all_recvd": False, "accepted": UNSET, "started": UNSET, "step": UNSET, "step_list": [], "completed": UNSET}


def model_add_tm(st_, sub, step):
    """Reference transition function (written from the property statement and the class documentation)."""
    completed_flag = sub % 2 == 0 or sub == 7
    finished_after_start = st_["accepted"] != UNSET and st_["started"] != UNSET
    if sub == 1:
        st_["accepted"] = SUCCESS
    elif sub == 2:
        st_["accepted"] = FAILURE
        st_["all_recvd"] = True
    elif sub == 3:
        st_["started"] = SUCCESS
    elif sub == 4:
        if st_["accepted"] != UNSET:
            st_["all_recvd"] = True
        st_["started"] = FAILURE
    elif sub == 5:
        if st_["step"] == UNSET:
            st_["step"] = SUCCESS
        st_["step_list"].append(step)
    elif sub == 6:
        if finished_after_start:
            st_["all_recvd"] = True
        st_["step"] = FAILURE
        st_["step_list"].append(step)
    elif sub == 7:
        if finished_after_start:
            st_["all_recvd"] = True
        st_["completed"] = SUCCESS
    elif sub == 8:
        if finished_after_start:
            st_["all_recvd"] = True
        st_["completed"] = FAILURE
    return completed_flag


def obs_status(v):
    return {
        "all_recvd": bool(v.all_verifs_recvd), "accepted": int(v.accepted), "started": int(v.started), "step": int(v.step),
        "step_list": [int(x) for x in v.step_list], "completed": int(v.completed),
    }


class State:
    def __init__(self):
        s1, PFE, PusVerificator, RequestId, PusTc = _m()
        self.s1, self.PFE, self.RequestId = s1, PFE, RequestId
        self.real = PusVerificator()
        self.tcs = [self._tc(PusTc, t) for t in TCS]
        # request ids are derived independently of the routes the tracker itself uses: the first four octets of the header as the
        # reference encoder writes them (version | type TC | secondary-header flag | APID, sequence flags | count)
        from ..ref import ccsds as RC

        raw4 = [RC.sp_header(t.get("ver", 0), 1, t.get("shf", 1), t["apid"], t.get("flags", 3), t["seq"], 0)[:4] for t in TCS]
        self.key = [int.from_bytes(r, "big") for r in raw4]
        self.req = [RequestId.unpack(r) for r in raw4]
        for i, tc in enumerate(self.tcs):
            if bytes(tc.pack()[:4]) != raw4[i]:
                raise AssertionError(f"harness: telecommand {i} does not start with the intended request id octets")
        self.model = {}  # u32 -> status dict
        self.ever_finished = set()
        self.answers = []  # (answer object, its completed flag when it was returned): callers collect answers and read them later

    @staticmethod
    def _tc(PusTc, t):
        data = bytes.fromhex(t["data"])
        if "ver" not in t and "flags" not in t and "shf" not in t:
            return PusTc(service=t["service"], subservice=t["subservice"], apid=t["apid"], seq_count=t["seq"], app_data=data)
        from spacepackets.ccsds import spacepacket as sp

        if "shf" in t:
            from spacepackets.ecss.tc import PusTcDataFieldHeader

            hdr = sp.SpacePacketHeader(packet_type=sp.PacketType.TC, apid=t["apid"], seq_count=t["seq"], data_len=5 + len(data) + 2 - 1, sec_header_flag=bool(t["shf"]))
            return PusTc.from_composite_fields(hdr, PusTcDataFieldHeader(service=t["service"], subservice=t["subservice"]), data)

        hdr = sp.SpacePacketHeader(packet_type=sp.PacketType.TC, apid=t["apid"], seq_count=t["seq"], data_len=0, sec_header_flag=True,
                                   seq_flags=sp.SequenceFlags(t.get("flags", 3)), ccsds_version=t.get("ver", 0))
        return PusTc.from_sp_header(hdr, service=t["service"], subservice=t["subservice"], app_data=data)

    def report(self, t, sub, step, decoded=0):
        r = self._report(t, sub, step)
        if decoded:
            # the report as the ground receives it: packed by the spacecraft side, decoded from the octets
            r = self.s1.Service1Tm.unpack(bytes(r.pack()), self.s1.UnpackParams(0, 1, 1))
        return r

    def _report(self, t, sub, step):
        s1 = self.s1
        step_id = self.PFE.with_byte_size(1, step) if sub in (5, 6) else None
        fail = s1.FailureNotice(self.PFE.with_byte_size(1, 9), b"\x01") if sub % 2 == 0 else None
        params = s1.VerificationParams(self.req[t], step_id, fail)
        return s1.Service1Tm(apid=0x50, subservice=s1.Subservice(sub), timestamp=b"", verif_params=params)


class TrackerMachine(HistorySpec):
    max_steps = 50

    def init_strategy(self):
        # telecommands registered before the history starts (exercised through add_tc like any other)
        return st.fixed_dictionaries({"registered": st.lists(st.sampled_from(REGISTRABLE), max_size=3, unique=True)})

    def ops(self):
        report = st.fixed_dictionaries({"t": st.sampled_from([0, 0, 1, 1, 2, 3, 4, 5, 6, 7]), "sub": st.integers(1, 8), "step": st.integers(0, 255), "decoded": st.integers(0, 1)})
        return {
            "add_tc": st.sampled_from(REGISTRABLE),
            # reports are the interesting input: three identical rules give them 3/6 of the steps
            "add_tm": report,
            "add_tm_b": report,
            "add_tm_c": report,
            "remove_entry": st.integers(0, 7),
            "remove_completed": st.just(0),
            # a run of reports for one telecommand as a spacecraft sends them (acceptance, start, steps, completion - success or failure at
            # the end, sometimes with one more completing report behind it): brings entries to "all verifications received" often
            "report_run": st.fixed_dictionaries({"t": st.sampled_from([0, 1, 2, 3, 5, 6, 7]), "steps": st.integers(0, 2), "end": st.sampled_from([7, 7, 8, 2, 4, 6]),
                                                 "extra": st.sampled_from([0, 0, 7, 8, 2]), "decoded": st.integers(0, 1)}),
            # a request id that comes round again (sequence counts wrap): its telecommand completes, the entry is removed one way or the
            # other, and a telecommand with the same id is registered again
            "recycle": st.fixed_dictionaries({"t": st.sampled_from([0, 1, 2, 5]), "end": st.sampled_from([7, 8, 6]), "extra": st.sampled_from([0, 7, 8]),
                                              "via": st.sampled_from(["remove_entry", "remove_completed"])}),
        }

    def start(self, params):
        s = State()
        for t in params.get("registered", []):
            s.real.add_tc(s.tcs[t])
            s.model.setdefault(s.key[t], new_status())
        return s

    @staticmethod
    def run_reports(a):
        end = a["end"]
        subs = []
        if end == 2:
            subs = [2]
        elif end == 4:
            subs = [1, 4]
        else:
            subs = [1, 3] + [5] * a["steps"] + ([6, 8] if end == 6 else [end])
        if a["extra"]:
            subs.append(a["extra"])
        return [{"t": a["t"], "sub": sub, "step": i, "decoded": a["decoded"]} for i, sub in enumerate(subs)]

    def step(self, s, name, a):
        devs = []
        if name == "report_run":
            for rep in self.run_reports(a):
                devs.extend(self.step(s, "add_tm", rep))
                if devs:
                    break
            return devs
        if name == "recycle":
            seq = [("add_tc", a["t"]), ("report_run", {"t": a["t"], "steps": 0, "end": a["end"], "extra": a["extra"], "decoded": 0}),
                   ("remove_entry", a["t"]) if a["via"] == "remove_entry" else ("remove_completed", 0), ("add_tc", a["t"])]
            for n2, a2 in seq:
                devs.extend(self.step(s, n2, a2))
                devs.extend(self.invariant(s) if not devs else [])
                if devs:
                    break
            return devs
        if name.startswith("add_tm"):
            name = "add_tm"
        if name == "add_tc":
            got = s.real.add_tc(s.tcs[a])
            k = s.key[a]
            want = k not in s.model
            if want:
                s.model[k] = new_status()
            eq(devs, "add_tc.return", got, want, f"add_tc(tc{a})")
        elif name == "add_tm":
            k = s.key[a["t"]]
            res = s.real.add_tm(s.report(a["t"], a["sub"], a["step"], a.get("decoded", 0)))
            if k not in s.model:
                true(devs, "add_tm.unknown_none", res is None, f"report for an unknown request id returned {res!r}")
            else:
                flag = model_add_tm(s.model[k], a["sub"], a["step"])
                if res is None:
                    devs.append(Dev("add_tm.known_none", f"report {a} for a registered telecommand returned None"))
                else:
                    eq(devs, "add_tm.completed_flag", bool(res.completed), flag, f"report {a}")
                    eq(devs, "add_tm.result_status", obs_status(res.status), s.model[k], f"report {a}")
                    for old_res, old_flag in s.answers[-4:]:
                        if True:  # (also when the library handed out the same object again: what it said then must still be what it says)
                            eq(devs, "add_tm.earlier_answer_completed_flag", bool(old_res.completed), old_flag, "an answer returned earlier changed when a later report was added")
                    s.answers.append((res, bool(res.completed)))
        elif name == "remove_entry":
            k = s.key[a]
            got = s.real.remove_entry(s.req[a])
            want = k in s.model
            s.model.pop(k, None)
            eq(devs, "remove_entry.return", got, want, f"remove_entry(tc{a})")
        elif name == "remove_completed":
            s.real.remove_completed_entries()
            s.model = {k: v for k, v in s.model.items() if not v["all_recvd"]}
        return devs

    def invariant(self, s):
        devs = []
        real = {rid.as_u32(): obs_status(v) for rid, v in s.real.verif_dict.items()}
        eq(devs, "state.keys", sorted(real), sorted(s.model), "tracked request ids")
        if not devs:
            for k in sorted(s.model):
                eq(devs, "state.status", real[k], s.model[k], f"status of request id {k:#010x}")
        return devs


def _touched(trace):
    return {a["t"] if isinstance(a, dict) else a for n, a in _norm(trace) if n in ("add_tm", "add_tc")}


def _norm(trace):
    out = []
    for n, a in trace["steps"]:
        if n == "report_run":
            out.extend(("add_tm", rep) for rep in TrackerMachine.run_reports(a))
        elif n == "recycle":
            out.append(("add_tc", a["t"]))
            out.extend(("add_tm", rep) for rep in TrackerMachine.run_reports({"t": a["t"], "steps": 0, "end": a["end"], "extra": a["extra"], "decoded": 0}))
            out.append(("remove_entry", a["t"]) if a["via"] == "remove_entry" else ("remove_completed", 0))
            out.append(("add_tc", a["t"]))
        else:
            out.append(("add_tm" if n.startswith("add_tm") else n, a))
    return out


def _nt(trace):
    reports = [a for n, a in _norm(trace) if n == "add_tm"]
    fails = any(a["sub"] % 2 == 0 for a in reports)
    subs = [a["sub"] for a in reports]
    out_of_order = any(subs[i] > subs[i + 1] for i in range(len(subs) - 1))
    return len(_touched(trace)) >= 2 and (fails or out_of_order)


def _cls(trace):
    names = [n for n, _ in _norm(trace)]
    reports = [a for n, a in _norm(trace) if n == "add_tm"]
    out = []
    if any(a["sub"] in (4, 6, 8) for a in reports):
        out.append("start/step/completion failure")
    if any(a["t"] == 4 for a in reports):
        out.append("report for unknown tc")
    if any(a["t"] == 3 for a in reports) or ("add_tc", 3) in [(n, a) for n, a in _norm(trace) if n == "add_tc"] or 3 in trace["init"].get("registered", []):
        out.append("shared request id")
    if "remove_completed" in names:
        out.append("remove_completed")
    if "remove_entry" in names:
        out.append("remove_entry")
    steps = [a["sub"] for a in reports if a["sub"] in (5, 6)]
    if 6 in steps and 5 in steps[steps.index(6):]:
        out.append("step success after step failure")
    if len({a["t"] for a in reports}) >= 2:
        out.append("interleaved telecommands")
    regs = set(trace["init"].get("registered", [])) | {a for n, a in _norm(trace) if n == "add_tc"}
    if any(a.get("decoded") for a in reports if a["sub"] in (2, 4, 6, 7, 8)):
        out.append("failure / completion report decoded from octets")
    if (5 in regs or 6 in regs or 7 in regs) and ({0, 3} & regs or any(a["t"] in (0, 3) for a in reports)):
        out.append("request ids differing only in version / sequence flags")
    # replay on the model alone to see which model states the history reached
    keyof = lambda t: (TCS[t]["apid"], TCS[t]["seq"], TCS[t].get("ver", 0), TCS[t].get("flags", 3), TCS[t].get("shf", 1))  # noqa: E731
    model = {keyof(t): new_status() for t in trace["init"].get("registered", [])}
    for n, a in _norm(trace):
        if n == "add_tc":
            model.setdefault(keyof(a), new_status())
        elif n == "add_tm" and keyof(a["t"]) in model:
            out.append("report for registered tc")
            model_add_tm(model[keyof(a["t"])], a["sub"], a["step"])
            if model[keyof(a["t"])]["all_recvd"]:
                out.append("all verifications received")
        elif n == "remove_entry":
            model.pop(keyof(a), None)
        elif n == "remove_completed":
            if any(v["all_recvd"] for v in model.values()):
                out.append("remove_completed removes something")
            if any(not v["all_recvd"] for v in model.values()):
                out.append("remove_completed keeps something")
            model = {k: v for k, v in model.items() if not v["all_recvd"]}
    return sorted(set(out))


CLAUSES = [
    Clause(
        id="C16.machine",
        doc="rule-based state machine over add_tc / add_tm(any subservice, any tc incl. unknown and shared request id) / remove_entry / remove_completed_entries against a reference model; return values and the whole verif_dict compared after every step",
        kind="history",
        history=TrackerMachine(),
        nontrivial=_nt,
        classify=_cls,
        required=["report for registered tc", "all verifications received", "remove_completed removes something", "remove_completed keeps something", "start/step/completion failure", "report for unknown tc", "shared request id", "remove_completed", "remove_entry", "step success after step failure", "interleaved telecommands", "request ids differing only in version / sequence flags", "failure / completion report decoded from octets"],
        n={"quick": 400, "thorough": 3000},
    ),
]

PROPERTY = Property(
    id="C16",
    level="exploration",
    rule=(
        "histories of up to 50 calls over {add_tc(t), add_tm(report(t, subservice 1..8, step id)), remove_entry(t), remove_completed_entries()} for 7 telecommands (3 distinct, one sharing a "
        "request id, one never registered, three differing from the first only in CCSDS version / sequence flags / secondary-header flag), reports handed over as built or as decoded from their octets, generated by Hypothesis' rule-based state machine; oracle = reference model of the documented state machine; every return value and the complete "
        "tracker state are compared after every call; non-trivial = history touching >= 2 telecommands with a failure or an out-of-order report"
    ),
    clauses=CLAUSES,
    assumptions=["the reference transition function in vf/props/c16.py (model_add_tm) is the trusted reading of the statement and the class documentation"],
)
