"""C12 - the PDU factory returns the right PDU kind, equal to what was packed."""
from __future__ import annotations

from hypothesis import strategies as st

from .. import cfdp_model as M
from ..core import Clause, Dev, eq, expect_raise, true
from ..prop import Property
from ..ref import cfdp as R

ACCESSOR = {
    "eof": "to_eof_pdu", "finished": "to_finished_pdu", "ack": "to_ack_pdu", "metadata": "to_metadata_pdu", "nak": "to_nak_pdu",
    "prompt": "to_prompt_pdu", "keepalive": "to_keep_alive_pdu", "filedata": "to_file_data_pdu",
}


def check_factory(p):
    from spacepackets.cfdp.pdu.helper import PduFactory, PduHolder

    devs = []
    kind = p["kind"]
    raw = M.ref_pdu(p)
    cls = M.pdu_class(kind)
    original = M.build_pdu(p)
    eq(devs, "precondition.pack_is_reference", bytes(original.pack()), raw)
    wo = M.want_pdu_obs(p, raw)
    hp = R.parse_header(raw)
    for tag, buf in (("bytes", bytes(raw)), ("bytearray", bytearray(raw))):
        y = PduFactory.from_raw(buf)
        true(devs, f"from_raw.type.{tag}", type(y) is cls, f"got {type(y).__name__} for a {kind} PDU")
        if type(y) is not cls:
            continue
        true(devs, f"from_raw.eq.{tag}", bool(y == original) and bool(original == y), "factory result != original")
        eq(devs, f"from_raw.fields.{tag}", M.obs_pdu(y, kind), wo)
        eq(devs, f"from_raw.repack.{tag}", bytes(y.pack()), raw)
    # raw inspectors versus what the octets carry (read by the reference parser)
    eq(devs, "inspect.pdu_type", int(PduFactory.pdu_type(raw)), hp["pdu_type"])
    eq(devs, "inspect.is_file_directive", bool(PduFactory.is_file_directive(raw)), hp["pdu_type"] == 0)
    dt = PduFactory.pdu_directive_type(raw)
    if hp["pdu_type"] == 0:
        eq(devs, "inspect.directive_type", int(dt), raw[hp["header_len"]])
        eq(devs, "inspect.directive_type_vs_kind", int(dt), R.directive_code(p))
    else:
        true(devs, "inspect.directive_type_none", dt is None, f"got {dt!r} for file data")
    # holder
    holder = PduFactory.from_raw_to_holder(raw)
    eq(devs, "holder.pdu_type", int(holder.pdu_type), hp["pdu_type"])
    eq(devs, "holder.is_file_directive", bool(holder.is_file_directive), hp["pdu_type"] == 0)
    eq(devs, "holder.packet_len", holder.packet_len, len(raw))
    hd = holder.pdu_directive_type
    if hp["pdu_type"] == 0:
        eq(devs, "holder.directive_type", int(hd), R.directive_code(p))
    else:
        true(devs, "holder.directive_type_none", hd is None, f"got {hd!r}")
    eq(devs, "holder.pack", bytes(holder.pack()), raw)
    for k2, acc in ACCESSOR.items():
        fn = getattr(holder, acc)
        if k2 == kind:
            z = fn()
            true(devs, f"holder.{acc}.same_object", z is holder.pdu, "typed accessor did not return the held PDU")
            true(devs, f"holder.{acc}.type", type(z) is cls, f"got {type(z).__name__}")
        else:
            expect_raise(devs, f"holder.wrong_kind.{kind}->{acc}", fn, accept=(TypeError,))
    # histories through the factory: decoded PDUs stay what they are while further PDUs are decoded and buffers are reused
    devs.extend(M.pdu_histories(p, raw, wo, PduFactory.from_raw, tag="hist.factory", decode_other=PduFactory.from_raw))
    # a refused header update (source and destination ids of different widths) on the PDU, then pack and decode through the factory
    from spacepackets.util import ByteFieldGenerator

    o2 = M.build_pdu(p)
    w = p["conf"]["idw"]
    expect_raise(devs, "refused_id_update", o2.pdu_header.set_entity_ids, ByteFieldGenerator.from_int(w, 1), ByteFieldGenerator.from_int({1: 2, 2: 4, 4: 8, 8: 1}[w], 2), accept=(ValueError,))
    raw2 = bytes(o2.pack())
    eq(devs, "pack_after_refused_id_update", raw2, raw)
    y2 = PduFactory.from_raw(raw2)
    true(devs, "from_raw.type_after_refused_id_update", type(y2) is cls, f"got {type(y2).__name__}")
    # bit 3 of the fourth header octet (segment metadata flag; it has no meaning for file directives and is a plain attribute of the header):
    # the factory and its inspectors find the directive octet at 4 + 2*idw + seqw whatever that bit says
    if kind != "filedata":
        from spacepackets.cfdp.defs import SegmentMetadataFlag

        o3 = M.build_pdu(p)
        o3.pdu_header.segment_metadata_flag = SegmentMetadataFlag.PRESENT
        raw3 = bytearray(raw)
        raw3[3] |= 0x08
        if p["conf"]["crc"]:
            raw3[-2:] = R.crc_bytes(bytes(raw3[:-2]))
        raw3 = bytes(raw3)
        eq(devs, "seg_meta_bit_on_directive.pack", bytes(o3.pack()), raw3)
        eq(devs, "seg_meta_bit_on_directive.inspect.is_file_directive", bool(PduFactory.is_file_directive(raw3)), True)
        dt3 = PduFactory.pdu_directive_type(raw3)
        eq(devs, "seg_meta_bit_on_directive.inspect.directive_type", None if dt3 is None else int(dt3), R.directive_code(p))
        y3 = PduFactory.from_raw(raw3)
        true(devs, "seg_meta_bit_on_directive.from_raw.type", type(y3) is cls, f"got {type(y3).__name__} for a {kind} PDU")
        if type(y3) is cls:
            eq(devs, "seg_meta_bit_on_directive.from_raw.repack", bytes(y3.pack()), raw3)
            true(devs, "seg_meta_bit_on_directive.from_raw.eq", bool(y3 == o3), "factory result != packed PDU")
    # one holder reused for PDUs of different kinds (through the attribute and through the deprecated alias): accessors follow what is held now
    import warnings

    q = M.other_pdu(p)
    other_obj = M.build_pdu(q)
    hr = PduHolder(original)
    getattr(hr, ACCESSOR[kind])()
    hr.pdu_directive_type  # noqa: B018 - queried in between on purpose
    for how in ("pdu", "base"):
        with warnings.catch_warnings():
            warnings.simplefilter("ignore")
            setattr(hr, how, other_obj)
        true(devs, f"holder_reuse.{how}.new_kind", getattr(hr, ACCESSOR[q["kind"]])() is other_obj, "accessor for the PDU now held failed")
        if q["kind"] != kind:
            expect_raise(devs, f"holder_reuse.{how}.old_kind", getattr(hr, ACCESSOR[kind]), accept=(TypeError,))
        with warnings.catch_warnings():
            warnings.simplefilter("ignore")
            setattr(hr, how, original)
        true(devs, f"holder_reuse.{how}.back", getattr(hr, ACCESSOR[kind])() is original, "accessor after switching back failed")
    # a holder built directly around the original object behaves the same
    h2 = PduHolder(original)
    for k2, acc in ACCESSOR.items():
        if k2 == kind:
            true(devs, f"holder2.{acc}", getattr(h2, acc)() is original, "accessor on PduHolder(original) did not return it")
        else:
            expect_raise(devs, f"holder2.wrong_kind.{kind}->{acc}", getattr(h2, acc), accept=(TypeError,))
    return devs


CLAUSES = [
    Clause(
        id=f"C12.{kind}",
        doc=f"{kind}: factory returns exactly that class, == original, identical re-pack; inspectors; holder accessors (1 right, 7 TypeError)",
        strategy=(lambda kind=kind: M.st_pdu(kind, small=True)),
        check=check_factory,
        nontrivial=lambda p: M.conf_nontrivial(p["conf"]),
        classify=M.pdu_classes,
        required=[kind, "crc on", "large file", "id width 2", "id width 4", "id width 8", "seq width 2", "seq width 4", "seq width 8"],
        n={"quick": 250, "thorough": 2500},
    )
    for kind in M.KINDS
]

def enum_large(tier, shard, nshards, rng):
    """PDUs whose data field crosses 2^15 and approaches 2^16 octets (reached through long file data / thousands of segment requests)."""
    cases = []
    for crc in (0, 1):
        for large in (0, 1):
            conf = {"crc": crc, "large": large, "mode": 0, "dir": 0, "segctrl": 0, "idw": 2, "seqw": 2, "src": 0x1234, "dst": 0x00FF, "seq": 0xFFFE}
            fss = 8 if large else 4
            for dlen in (32767, 32768, 32769, 40000, 65535):
                n = dlen - fss - (2 if crc else 0)
                cases.append({"kind": "filedata", "conf": conf, "offset": 3, "data": {"len": n, "fill": 0x30 + crc, "step": 1}, "meta": None})
            for nseg in ((32768 - 1 - 2 * fss) // (2 * fss), (32768 - 1 - 2 * fss) // (2 * fss) + 1):
                cases.append({"kind": "nak", "conf": conf, "start": 1, "end": 2, "segs": {"n": nseg}})
    for i, c in enumerate(cases):
        if i % nshards == shard:
            yield c


def enum_sizes(tier, shard, nshards, rng):
    """File Data PDUs through the factory for every data-field length in 0..1300 and around every multiple of 256 up to the limit
    (a length-dependent slip in the factory's own buffer handling shows only for narrow residue classes)."""
    i = 0
    for hconf in ({"crc": 0, "large": 0, "idw": 1, "seqw": 1}, {"crc": 1, "large": 1, "idw": 2, "seqw": 4}, {"crc": 0, "large": 0, "idw": 8, "seqw": 8}):
        conf = {"mode": 1, "dir": 0, "segctrl": 0, "src": 1, "dst": 2, "seq": 3, **hconf}
        fixed = (8 if conf["large"] else 4) + (2 if conf["crc"] else 0)
        dlens = list(range(fixed, 1301)) + [k * 256 + d for k in (6, 8, 16, 31, 32, 64, 127, 128, 200, 255) for d in range(-12, 3)] + [65535 - d for d in range(0, 12)]
        for dlen in dlens:
            if fixed <= dlen <= 65535:
                i += 1
                if i % nshards == shard and (tier == "thorough" or i % 3 == 0 or dlen > 1301 or 480 <= dlen <= 520):
                    yield {"conf": conf, "dlen": dlen}


def check_size(c):
    from spacepackets.cfdp.pdu.helper import PduFactory

    conf = c["conf"]
    fixed = (8 if conf["large"] else 4) + (2 if conf["crc"] else 0)
    p = {"kind": "filedata", "conf": conf, "offset": 0x01020304, "data": {"len": c["dlen"] - fixed, "fill": c["dlen"] & 0xFF, "step": 1}, "meta": None}
    raw = M.ref_pdu(p)
    devs = []
    eq(devs, "size.precondition_dlen", len(raw) - R.header_len(conf), c["dlen"])
    y = PduFactory.from_raw(raw)
    true(devs, "size.from_raw.type", type(y) is M.pdu_class("filedata"), f"got {type(y).__name__}")
    if type(y) is M.pdu_class("filedata"):
        eq(devs, "size.from_raw.repack", bytes(y.pack()), raw)
        eq(devs, "size.from_raw.data_len", len(y.file_data), c["dlen"] - fixed)
    h = PduFactory.from_raw_to_holder(raw + b"\x00" * (c["dlen"] % 3))
    eq(devs, "size.holder.packet_len", h.packet_len, len(raw))
    return devs


def check_large(c):
    if c["kind"] == "nak":
        c = dict(c, segs=[[i, i + 1] for i in range(c["segs"]["n"])])
    return check_factory(c)


CLAUSES.append(
    Clause(
        id="C12.large",
        doc="factory route for PDUs whose data field is 32767 / 32768 / 32769 / 40000 / 65535 octets (File Data) or just below / above 2^15 (NAK with thousands of segment requests)",
        kind="enum",
        enum=enum_large,
        check=check_large,
        classify=lambda c: [c["kind"]] + (["crc on"] if c["conf"]["crc"] else []) + (["large file"] if c["conf"]["large"] else []),
        required=["filedata", "nak", "crc on", "large file"],
        shards={"quick": 8, "thorough": 8},
    )
)

CLAUSES.append(
    Clause(
        id="C12.sizes",
        doc="File Data PDUs through the factory for every data-field length up to 1300 and around multiples of 256 up to 65535 (thorough: all; quick: every third plus the bands)",
        kind="enum",
        enum=enum_sizes,
        check=check_size,
        classify=lambda c: ["dlen < 256" if c["dlen"] < 256 else ("dlen < 1301" if c["dlen"] < 1301 else "dlen near a multiple of 256")],
        required=["dlen < 256", "dlen < 1301", "dlen near a multiple of 256"],
        shards={"quick": 8, "thorough": 16},
    )
)

from .. import decoders as D  # noqa: E402
from ..envcheck import env_clauses  # noqa: E402

CLAUSES.extend(env_clauses("C12", ("cfdp_pdu", "cfdp_header")))

PROPERTY = Property(
    id="C12",
    level="exploration",
    rule=(
        "8 PDU kinds x header configurations over all 16 (id width, sequence width) pairs x CRC x large file (the directive octet sits at 4 + 2*idw + seqw); all 8 x 8 "
        "(held kind, accessor) pairs on every case; oracle = class identity, equality, observed fields and octets against the reference encoder/parser; non-trivial = width != 1 or CRC or large file"
    ),
    clauses=CLAUSES,
    assumptions=["reference encoder/parser of vf/ref/cfdp.py; the packed input is the reference octets (checked equal to the library's pack first)"],
)
