"""C03 - PUS-C telemetry encode/decode exact and inverse for any timestamp length."""
from __future__ import annotations

from hypothesis import strategies as st

from ..core import Clause, Dev, eq, expect_raise, pack_fresh, scribble, true
from ..prop import Property
from ..ref import ccsds as RC
from ..ref import pus as RP
from ..ref.crc import crc_bytes
from ..strategies import data_field, expand_fill, uint


def _m():
    from spacepackets.ccsds import spacepacket as sp
    from spacepackets.ecss import check_pus_crc
    from spacepackets.ecss import tm as tmm
    from spacepackets.ecss.pus_17_test import Service17Tm

    return sp, tmm, check_pus_crc, Service17Tm


def obs_tm(tm) -> dict:
    h = tm.sp_header
    sec = tm.pus_tm_sec_header if hasattr(tm, "pus_tm_sec_header") else tm.pus_tm.pus_tm_sec_header
    return {
        "ver": int(tm.ccsds_version),
        "ptype": int(h.packet_type),
        "shf": int(bool(h.sec_header_flag)),
        "apid": int(h.apid),
        "flags": int(h.seq_flags),
        "count": int(h.seq_count),
        "dlen": int(h.data_len),
        "service": int(tm.service),
        "subservice": int(tm.subservice),
        "msg_counter": int(sec.message_counter),
        "dest_id": int(sec.dest_id),
        "time_ref": int(sec.spacecraft_time_ref),
        "pus_version": int(sec.pus_version),
        "timestamp": bytes(tm.timestamp).hex(),
        "source_data": bytes(tm.source_data).hex(),
        "packet_len": int(h.packet_len),
    }


def st_stamp():
    return st.one_of(
        st.just(7).flatmap(lambda n: st.binary(min_size=n, max_size=n)),
        st.just(b""),
        st.binary(min_size=0, max_size=32),
        st.binary(min_size=1, max_size=6),
    ).map(bytes.hex)


def crc_zero_prefix_tm(c, max_n=600):
    """As c02.crc_zero_prefix_tc: make the CRC-16 over the primary header, or over primary + secondary header (timestamp included),
    exactly 0x0000 by choosing sequence count / source-data length, or destination id / the last two timestamp octets."""
    from ..ref.crc import crc16_fast

    c = dict(c)
    stamp = bytes.fromhex(c["timestamp"])
    src = expand_fill(c["source_data"])
    if c.pop("_zero_at", 13) == 13:
        hdr = RC.sp_header(c["ver"], 0, 1, c["apid"], 3, c["seq"], 7 + len(stamp) + len(src) + 2 - 1)
        sec = bytes([0x20 | c["time_ref"], c["service"], c["subservice"]]) + c["msg_counter"].to_bytes(2, "big")
        if len(stamp) >= 2:
            dest = c["dest_id"].to_bytes(2, "big")
            pre = hdr + sec + dest + stamp[:-2]
            c["timestamp"] = (stamp[:-2] + crc16_fast(pre).to_bytes(2, "big")).hex()
        else:
            stamp = b""
            c["timestamp"] = ""
            hdr = RC.sp_header(c["ver"], 0, 1, c["apid"], 3, c["seq"], 7 + len(src) + 2 - 1)
            c["dest_id"] = crc16_fast(hdr + sec)
        return c
    for seq in range(c["seq"], c["seq"] + 16384):
        first4 = RC.sp_header(c["ver"], 0, 1, c["apid"], 3, seq % 16384, 0)[:4]
        n = crc16_fast(first4) + 1 - 7 - len(stamp) - 2
        if 0 <= n <= max_n:
            c["seq"] = seq % 16384
            c["source_data"] = {"len": n, "fill": c["service"], "step": 1}
            return c
    return c


def st_tm(big=(255, 256, 1000, 4096), service=None):
    base = _st_tm_plain(big, service)
    zero = st.tuples(_st_tm_plain((), service), st.sampled_from([6, 13])).map(lambda t: crc_zero_prefix_tm({**t[0], "_zero_at": t[1]}))
    return st.one_of(base, base, base, base, base, base, base, zero)


def _st_tm_plain(big=(255, 256, 1000, 4096), service=None):
    return st.fixed_dictionaries(
        {
            "service": uint(8) if service is None else st.just(service),
            "subservice": uint(8),
            "apid": uint(11),
            "seq": uint(14),
            "msg_counter": uint(16),
            "dest_id": uint(16),
            "time_ref": st.integers(0, 15),
            "ver": st.sampled_from([0, 0, 1, 3, 7, 5]),
            "timestamp": st_stamp(),
            "source_data": data_field(64, big),
        }
    )


def want_obs(c, stamp, src):
    return {
        "ver": c["ver"], "ptype": 0, "shf": 1, "apid": c["apid"], "flags": 3, "count": c["seq"], "dlen": 7 + len(stamp) + len(src) + 2 - 1,
        "service": c["service"], "subservice": c["subservice"], "msg_counter": c["msg_counter"], "dest_id": c["dest_id"],
        "time_ref": c["time_ref"], "pus_version": 2, "timestamp": stamp.hex(), "source_data": src.hex(), "packet_len": 15 + len(stamp) + len(src),
    }


def build_tm(tmm, c, stamp, src):
    return tmm.PusTm(
        service=c["service"], subservice=c["subservice"], timestamp=stamp, source_data=src, apid=c["apid"], seq_count=c["seq"],
        message_counter=c["msg_counter"], space_time_ref=c["time_ref"], destination_id=c["dest_id"], packet_version=c["ver"],
    )


def check_tm(c):
    sp, tmm, check_pus_crc, Service17Tm = _m()
    devs = []
    stamp = bytes.fromhex(c["timestamp"])
    src = expand_fill(c["source_data"])
    ts = len(stamp)
    want = RP.pus_tm(c["apid"], c["seq"], c["service"], c["subservice"], c["msg_counter"], c["dest_id"], c["time_ref"], stamp, src, ver=c["ver"])
    wo = want_obs(c, stamp, src)
    tm = build_tm(tmm, c, stamp, src)
    eq(devs, "enc.fields", obs_tm(tm), wo)
    packed = tm.pack()
    eq(devs, "enc.bytes", bytes(packed), want)
    eq(devs, "enc.len_vs_packet_len", len(packed), tm.packet_len)
    eq(devs, "enc.len_field", int.from_bytes(packed[4:6], "big"), len(packed) - 7)
    true(devs, "enc.check_pus_crc", check_pus_crc(bytes(packed)) is True, "standalone CRC check rejects a freshly packed TM")
    eq(devs, "enc.crc16_attr", bytes(tm.crc16), want[-2:])
    eq(devs, "enc.repeat", bytes(tm.pack()), want)
    eq(devs, "timestamp_offset_const", tmm.PUS_TM_TIMESTAMP_OFFSET, 13)
    eq(devs, "timestamp_at_offset", bytes(packed[13 : 13 + ts]), stamp)
    eq(devs, "service_from_bytes", tmm.PusTm.service_from_bytes(packed), c["service"])
    eq(devs, "data_len_helper", tmm.PusTm.data_len_from_src_len_timestamp_len(ts, len(src)), len(want) - 7)
    for tag, buf in (("bytes", bytes(want)), ("bytearray", bytearray(want))):
        dec = tmm.PusTm.unpack(buf, ts)
        eq(devs, f"dec.fields.{tag}", obs_tm(dec), wo)
        true(devs, f"dec.eq.{tag}", dec == tm and tm == dec, "unpack(pack(tm)) != tm")
        eq(devs, f"dec.repack.{tag}", bytes(dec.pack()), want)
        eq(devs, f"dec.crc16.{tag}", bytes(dec.crc16), want[-2:])
        eq(devs, f"dec.space_packet.{tag}", bytes(dec.to_space_packet().pack()), want)
    eq(devs, "space_packet.bytes", bytes(tm.to_space_packet().pack()), want)
    tm2 = build_tm(tmm, c, stamp, src)
    tm2.calc_crc()
    eq(devs, "calc_crc", bytes(tm2.crc16), want[-2:])
    # secondary header alone
    sec = tmm.PusTmSecondaryHeader.unpack(want[6:], ts)
    eq(devs, "sec.unpack", (sec.service, sec.subservice, sec.message_counter, sec.dest_id, sec.spacecraft_time_ref, bytes(sec.timestamp)),
       (c["service"], c["subservice"], c["msg_counter"], c["dest_id"], c["time_ref"], stamp))
    eq(devs, "sec.pack", bytes(sec.pack()), want[6 : 13 + ts])
    eq(devs, "sec.header_size", sec.header_size, 7 + ts)
    # from_composite_fields with a consistent header
    hdr = sp.SpacePacketHeader.unpack(want)
    tm3 = tmm.PusTm.from_composite_fields(hdr, sec, src)
    eq(devs, "from_composite.bytes", bytes(tm3.pack()), want)
    if c["service"] == 17:
        s17 = Service17Tm(apid=c["apid"], subservice=c["subservice"], timestamp=stamp, ssc=c["seq"], source_data=src,
                          packet_version=c["ver"], space_time_ref=c["time_ref"], destination_id=c["dest_id"])
        s17.pus_tm.pus_tm_sec_header.message_counter = c["msg_counter"]
        eq(devs, "srv17.bytes", bytes(s17.pack()), want)
        d17 = Service17Tm.unpack(want, ts)
        eq(devs, "srv17.dec.fields", obs_tm(d17), wo)
        eq(devs, "srv17.dec.repack", bytes(d17.pack()), want)
        true(devs, "srv17.dec.eq_inner", d17.pus_tm == tm, "Service17Tm.unpack(...).pus_tm != original")
    if len(src) <= 4096:
        devs.extend(_tm_histories(sp, tmm, check_pus_crc, Service17Tm, c, stamp, src, want, wo, tm))
    return devs


def _tm_histories(sp, tmm, check_pus_crc, Service17Tm, c, stamp, src, want, wo, tm):
    """Short call histories: views before packing, caller-owned mutable buffers, decoding out of a longer receive buffer,
    fields changed through the public header objects."""
    devs = []
    ts = len(stamp)
    from ..core import copies_equal

    copies_equal(devs, "hist.copy_of_never_packed", build_tm(tmm, c, stamp, src), lambda o: bytes(o.pack()), want)
    copies_equal(devs, "hist.copy_of_decoded", tmm.PusTm.unpack(want, ts), lambda o: bytes(o.pack()), want)
    pack_fresh(devs, "hist.pack_returns_fresh_buffer", tm.pack, want)
    # equality does not depend on whether either side was ever packed
    true(devs, "hist.eq_decoded_vs_never_packed", bool(tmm.PusTm.unpack(want, ts) == build_tm(tmm, c, stamp, src)) and bool(build_tm(tmm, c, stamp, src) == tmm.PusTm.unpack(want, ts)),
         "decoded telemetry != telemetry with identical fields that was never packed")
    # an operation on ANOTHER packet was refused just before (out-of-range field): the next valid one is unaffected
    for bad_kw in ({"destination_id": 0x10000}, {"space_time_ref": 0x100}, {"source_data": "not octets"}):
        try:
            kw = dict(service=c["service"], subservice=c["subservice"], timestamp=stamp, source_data=src, apid=c["apid"], seq_count=c["seq"], message_counter=c["msg_counter"],
                      space_time_ref=c["time_ref"], destination_id=c["dest_id"], packet_version=c["ver"])
            kw.update(bad_kw)
            bad = tmm.PusTm(**kw)
            for op in (bad.calc_crc, bad.to_space_packet, bad.pack):
                try:
                    op()
                except Exception:  # noqa: BLE001 - the refusal itself is not under test here
                    pass
        except Exception:  # noqa: BLE001
            pass
        tag = "after_refused_" + next(iter(bad_kw))
        eq(devs, f"hist.{tag}.view", bytes(build_tm(tmm, c, stamp, src).to_space_packet().pack()), want)
        fresh2 = build_tm(tmm, c, stamp, src)
        fresh2.calc_crc()
        eq(devs, f"hist.{tag}.calc_crc", bytes(fresh2.crc16), want[-2:])
        eq(devs, f"hist.{tag}.pack", bytes(build_tm(tmm, c, stamp, src).pack()), want)
    # positional construction in the documented order (service, subservice, timestamp, source_data, apid, seq_count, message_counter, space_time_ref, destination_id, packet_version)
    eq(devs, "hist.positional.bytes", bytes(tmm.PusTm(c["service"], c["subservice"], stamp, src, c["apid"], c["seq"], c["msg_counter"], c["time_ref"], c["dest_id"], c["ver"]).pack()), want)
    # documented defaults (APID 0, counts 0, destination 0, time reference 0, version 0, no source data): independent objects
    d1 = tmm.PusTm(service=c["service"], subservice=c["subservice"], timestamp=stamp)
    d2 = tmm.PusTm(service=c["service"], subservice=c["subservice"], timestamp=stamp)
    wdef = RP.pus_tm(0, 0, c["service"], c["subservice"], 0, 0, 0, stamp, b"")
    eq(devs, "hist.defaults.bytes", bytes(d1.pack()), wdef)
    d1.to_space_packet()
    d1.tm_data = bytearray(b"\x01\x02")
    d1.pack()
    eq(devs, "hist.defaults.second_object_unaffected", bytes(d2.pack()), wdef)
    eq(devs, "hist.defaults.third_object_unaffected", bytes(tmm.PusTm(service=c["service"], subservice=c["subservice"], timestamp=stamp).pack()), wdef)
    # source data appended through the property with += (in place if the held object is mutable): this packet gets the octets, later default-built ones do not
    d3 = tmm.PusTm(service=c["service"], subservice=c["subservice"], timestamp=stamp)
    d3.tm_data += b"\x07\x08"
    eq(devs, "hist.defaults.source_data_appended_in_place.bytes", bytes(d3.pack()), RP.pus_tm(0, 0, c["service"], c["subservice"], 0, 0, 0, stamp, b"\x07\x08"))
    eq(devs, "hist.defaults.source_data_appended_in_place.later_object", bytes(tmm.PusTm(service=c["service"], subservice=c["subservice"], timestamp=stamp).pack()), wdef)
    eq(devs, "hist.defaults.source_data_appended_in_place.empty", bytes(tmm.PusTm.empty().tm_data), b"")
    # equality right after a field change on an object that carries a trailer from an earlier pack / decode, against the packet
    # decoded from the octets of the new values - before anything re-packs the changed object
    w_apid = RP.pus_tm((c["apid"] + 1) % 2048, c["seq"], c["service"], c["subservice"], c["msg_counter"], c["dest_id"], c["time_ref"], stamp, src, ver=c["ver"])
    for how, o_ch in (("packed", build_tm(tmm, c, stamp, src)), ("decoded", tmm.PusTm.unpack(want, ts))):
        o_ch.pack()
        o_ch.apid = (c["apid"] + 1) % 2048
        d_new = tmm.PusTm.unpack(w_apid, ts)
        true(devs, f"hist.eq_right_after_setter.{how}", bool(o_ch == d_new) and bool(d_new == o_ch), "changed packet != packet decoded from the octets of its new values")
    # composed from a primary header of the other packet type: refused
    from ..core import expect_raise as _er

    tc_hdr = sp.SpacePacketHeader(packet_type=sp.PacketType.TC, apid=c["apid"], seq_count=c["seq"], data_len=len(want) - 7, sec_header_flag=True, ccsds_version=c["ver"])
    sec = tmm.PusTmSecondaryHeader(service=c["service"], subservice=c["subservice"], timestamp=stamp, message_counter=c["msg_counter"], dest_id=c["dest_id"], spacecraft_time_ref=c["time_ref"])
    _er(devs, "hist.composed_from_tc_header", lambda: tmm.PusTm.from_composite_fields(tc_hdr, sec, src), accept=(ValueError,))
    # a caller keeps the packet's header objects, replaces the source data through the setter, and goes on using the objects it holds
    oh = build_tm(tmm, c, stamp, src)
    held_hdr, held_sec = oh.sp_header, oh.pus_tm_sec_header
    oh.tm_data = src + b"\x99"
    held_hdr.seq_count = (c["seq"] + 1) % 16384
    held_sec.message_counter = (c["msg_counter"] + 1) % 65536
    eq(devs, "hist.header_objects_held_across_data_setter.pack", bytes(oh.pack()),
       RP.pus_tm(c["apid"], (c["seq"] + 1) % 16384, c["service"], c["subservice"], (c["msg_counter"] + 1) % 65536, c["dest_id"], c["time_ref"], stamp, src + b"\x99", ver=c["ver"]))
    # the timestamp replaced by one of another length through the secondary header, then the documented setter that recomputes the length
    ot = build_tm(tmm, c, stamp, src)
    new_stamp = (stamp + b"\x5a\x5b")[: max(0, len(stamp) - 1)] if len(stamp) % 2 else stamp + b"\x5a\x5b"
    ot.pus_tm_sec_header.timestamp = new_stamp
    ot.tm_data = src
    eq(devs, "hist.timestamp_resized_through_header_then_data_setter.pack", bytes(ot.pack()),
       RP.pus_tm(c["apid"], c["seq"], c["service"], c["subservice"], c["msg_counter"], c["dest_id"], c["time_ref"], new_stamp, src, ver=c["ver"]))
    eq(devs, "hist.timestamp_resized_through_header_then_data_setter.packet_len", ot.packet_len, 6 + 7 + len(new_stamp) + len(src) + 2)
    # printing is pure: str() / repr() of a never-packed packet change nothing about what is packed after a later field change,
    # also with recalc_crc=False (no trailer has been computed yet, so one is computed)
    for printed in (False, True):
        o = build_tm(tmm, c, stamp, src)
        if printed:
            str(o), repr(o), str(o.pus_tm_sec_header), repr(o.sp_header)
        o.apid = (c["apid"] + 1) % 2048
        w2 = RP.pus_tm((c["apid"] + 1) % 2048, c["seq"], c["service"], c["subservice"], c["msg_counter"], c["dest_id"], c["time_ref"], stamp, src, ver=c["ver"])
        eq(devs, f"hist.never_packed_{'printed_then_' if printed else ''}changed.pack_without_recalc", bytes(o.pack(recalc_crc=False)), w2)
    c_src, c_stamp = bytearray(src), bytearray(stamp)
    t = build_tm(tmm, c, c_stamp, c_src)
    eq(devs, "hist.bytearray_inputs.view1", bytes(t.to_space_packet().pack()), want)
    eq(devs, "hist.bytearray_inputs.view2", bytes(t.to_space_packet().pack()), want)
    eq(devs, "hist.bytearray_inputs.pack_after_views", bytes(t.pack()), want)
    eq(devs, "hist.bytearray_inputs.packet_len_after_views", t.packet_len, len(want))
    eq(devs, "hist.bytearray_inputs.caller_source_data_untouched", bytes(c_src), src)
    eq(devs, "hist.bytearray_inputs.caller_timestamp_untouched", bytes(c_stamp), stamp)
    # decoded out of a longer receive buffer which the caller then reuses
    buf = bytearray(want + b"\x08\x01\xc0\x00\x00")
    d = tmm.PusTm.unpack(buf, ts)
    scribble(buf)
    eq(devs, "hist.decoded_from_longer_buffer.fields", obs_tm(d), wo)
    eq(devs, "hist.decoded_from_longer_buffer.crc16", bytes(d.crc16), want[-2:])
    eq(devs, "hist.decoded_from_longer_buffer.view", bytes(d.to_space_packet().pack()), want)
    eq(devs, "hist.decoded_from_longer_buffer.view_again", bytes(d.to_space_packet().pack()), want)
    eq(devs, "hist.decoded_from_longer_buffer.repack", bytes(d.pack()), want)
    if c["service"] == 17:
        d17 = Service17Tm.unpack(bytes(want) + b"\x08\x01", ts)
        eq(devs, "hist.srv17_from_longer_buffer.view", bytes(d17.pus_tm.to_space_packet().pack()), want)
        eq(devs, "hist.srv17_from_longer_buffer.crc16", bytes(d17.pus_tm.crc16), want[-2:])
    # source data replaced on a decoded / composed object (any timestamp length), then packed
    src2 = src[: len(src) // 2] + b"\x5a"
    want3 = RP.pus_tm(c["apid"], c["seq"], c["service"], c["subservice"], c["msg_counter"], c["dest_id"], c["time_ref"], stamp, src2, ver=c["ver"])
    sec = tmm.PusTmSecondaryHeader.unpack(want[6:], ts)
    for tag, obj in (("decoded", tmm.PusTm.unpack(want, ts)), ("composed", tmm.PusTm.from_composite_fields(sp.SpacePacketHeader.unpack(want), sec, src))):
        obj.tm_data = src2
        eq(devs, f"hist.source_data_replaced.{tag}.pack", bytes(obj.pack()), want3)
        eq(devs, f"hist.source_data_replaced.{tag}.packet_len", obj.packet_len, len(want3))
    # composed around a header whose length field is a placeholder: the documented setter recomputes it from the data it is given
    ph = sp.SpacePacketHeader.unpack(want)
    ph.data_len = 0
    pobj = tmm.PusTm.from_composite_fields(ph, sec, b"")
    pobj.tm_data = src2
    eq(devs, "hist.placeholder_length_then_source_data_set.pack", bytes(pobj.pack()), want3)
    # the application keeps ONE bytearray: grows it in place and hands the same object to the setter again
    held = bytearray(src)
    gobj = build_tm(tmm, c, stamp, held)
    gobj.pack()
    held.extend(b"\x5a\x5b\x5c")
    gobj.tm_data = held
    want4 = RP.pus_tm(c["apid"], c["seq"], c["service"], c["subservice"], c["msg_counter"], c["dest_id"], c["time_ref"], stamp, src + b"\x5a\x5b\x5c", ver=c["ver"])
    eq(devs, "hist.same_buffer_grown_in_place_and_set_again.pack", bytes(gobj.pack()), want4)
    eq(devs, "hist.same_buffer_grown_in_place_and_set_again.packet_len", gobj.packet_len, len(want4))
    # changed through the public header objects after packing / decoding; view before the next pack
    o_service, o_sub, o_seq, o_apid, o_cnt = (c["service"] + 1) % 256, (c["subservice"] + 3) % 256, (c["seq"] + 1) % 16384, (c["apid"] + 1) % 2048, (c["msg_counter"] + 1) % 65536
    want2 = RP.pus_tm(o_apid, o_seq, o_service, o_sub, o_cnt, c["dest_id"], c["time_ref"], stamp, src, ver=c["ver"])
    for tag, obj in (("packed", build_tm(tmm, c, stamp, src)), ("decoded", tmm.PusTm.unpack(want, ts))):
        obj.pack()
        obj.pus_tm_sec_header.service = o_service
        obj.pus_tm_sec_header.subservice = o_sub
        obj.pus_tm_sec_header.message_counter = o_cnt
        obj.sp_header.seq_count = o_seq
        obj.sp_header.apid = o_apid
        view = bytes(obj.to_space_packet().pack())
        eq(devs, f"hist.header_objects_changed.{tag}.view_before_pack", view, want2)
        true(devs, f"hist.header_objects_changed.{tag}.view_crc", check_pus_crc(view) is True, "space-packet view carries a stale CRC")
        eq(devs, f"hist.header_objects_changed.{tag}.pack", bytes(obj.pack()), want2)
    return devs


def _nt(c):
    ts = len(c["timestamp"]) // 2
    return ts not in (0, 7) or c["dest_id"] != 0 or c["time_ref"] != 0 or c["ver"] != 0


def _cls(c):
    ts = len(c["timestamp"]) // 2
    out = [f"ts {ts}" if ts in (0, 7) else ("ts 1..6" if ts < 7 else "ts > 7")]
    if c["dest_id"]:
        out.append("dest id != 0")
    if c["time_ref"]:
        out.append("time ref != 0")
    if c["ver"]:
        out.append("version != 0")
    if isinstance(c["source_data"], dict):
        out.append("source data > 255")
    return out


# ---- declared length too small -------------------------------------------------------------


def st_short():
    return st.fixed_dictionaries(
        {
            "apid": uint(11),
            "seq": uint(14),
            "ts": st.sampled_from([0, 1, 2, 4, 7, 7, 8, 16]),
            "delta": st.integers(1, 8),  # declared total = minimum - delta
            "body": st.binary(min_size=32, max_size=32).map(bytes.hex),
            "neighbours": st.one_of(st.just(""), st.binary(max_size=24).map(bytes.hex)),
            "patch": st.sampled_from([True, True, True, False]),
        }
    )


def craft_short_tm(c):
    ts = c["ts"]
    minimum = 6 + 7 + ts + 2
    total = max(9, minimum - c["delta"])
    body = bytearray(bytes.fromhex(c["body"]))
    body[0] = 0x20 | (body[0] & 0x0F)
    buf = bytearray(RC.sp_header(0, 0, 1, c["apid"], 3, c["seq"], total - 7)) + body
    buf = buf[:total]
    if c["patch"]:
        buf[total - 2 : total] = crc_bytes(bytes(buf[: total - 2]))
    return bytes(buf) + bytes.fromhex(c["neighbours"]), total, minimum


def check_short(c):
    sp, tmm, _, Service17Tm = _m()
    from ..excs import allowed

    devs = []
    buf, total, minimum = craft_short_tm(c)
    assert total < minimum
    expect_raise(devs, "short_declared.unpack", tmm.PusTm.unpack, buf, c["ts"], accept=allowed())
    expect_raise(devs, "short_declared.srv17", Service17Tm.unpack, buf, c["ts"], accept=allowed())
    return devs


def _cls_short(c):
    _, total, minimum = craft_short_tm(c)
    out = [f"ts {c['ts']}", "crc patched" if c["patch"] else "crc random", "neighbours" if c["neighbours"] else "exact buffer"]
    if minimum - total <= 2:
        out.append("only CRC room missing")
    return out


CLAUSES = [
    Clause(
        id="C03.codec",
        doc="pack == reference octets for any timestamp length; unpack observation-equal, ==, re-pack; space-packet view; constants",
        strategy=st_tm,
        check=check_tm,
        nontrivial=_nt,
        classify=_cls,
        required=["ts 0", "ts 7", "ts 1..6", "ts > 7", "dest id != 0", "time ref != 0", "version != 0", "source data > 255"],
        n={"quick": 1200, "thorough": 8000},
    ),
    Clause(
        id="C03.srv17",
        doc="service-17 wrapper packs and unpacks to the same octets/fields",
        strategy=lambda: st_tm(service=17),
        check=check_tm,
        nontrivial=_nt,
        classify=_cls,
        n={"quick": 500, "thorough": 4000},
    ),
    Clause(
        id="C03.limit",
        doc="source data at the space-packet limit round-trips; one octet more is refused",
        strategy=lambda: st.fixed_dictionaries({"ts": st.sampled_from([0, 7, 12]), "over": st.sampled_from([0, 0, 1, 5]), "fill": st.integers(0, 255), "apid": uint(11)}),
        check=lambda c: _check_limit(c),
        classify=lambda c: ["at limit" if c["over"] == 0 else "over limit"],
        required=["at limit", "over limit"],
        n={"quick": 12, "thorough": 50},
        shards={"quick": 1, "thorough": 4},
    ),
    Clause(
        id="C03.short_declared",
        doc="a declared total below 6+7+ts+2 is rejected even when the CRC matches the declared extent",
        strategy=st_short,
        check=check_short,
        nontrivial=lambda c: c["patch"],
        classify=_cls_short,
        required=["crc patched", "neighbours", "exact buffer", "only CRC room missing", "ts 0", "ts 7"],
        n={"quick": 1000, "thorough": 8000},
    ),
]


def _check_limit(c):
    sp, tmm, _, _ = _m()
    devs = []
    ts = c["ts"]
    n = 65536 - 7 - ts - 2 + c["over"]  # data field = 7+ts+n+2 <= 65536
    src = bytes([c["fill"]]) * n
    stamp = bytes(range(ts))
    cc = {"service": 3, "subservice": 25, "apid": c["apid"], "seq": 1, "msg_counter": 2, "dest_id": 3, "time_ref": 1, "ver": 0}
    if c["over"]:
        expect_raise(devs, "toolong.ctor", lambda: build_tm(tmm, cc, stamp, src).pack())
        return devs
    want = RP.pus_tm(cc["apid"], 1, 3, 25, 2, 3, 1, stamp, src)
    tm = build_tm(tmm, cc, stamp, src)
    eq(devs, "limit.bytes", bytes(tm.pack()), want)
    dec = tmm.PusTm.unpack(want, ts)
    eq(devs, "limit.dec.source_data_len", len(dec.source_data), n)
    true(devs, "limit.dec.eq", dec == tm, "decoded != original at the limit")
    return devs


from ..names_check import names_clause  # noqa: E402

if names_clause("C03") is not None:
    CLAUSES.append(names_clause("C03"))

PROPERTY = Property(
    id="C03",
    level="exploration",
    rule=(
        "field tuples boundary-weighted, timestamp length 0..32 (7 and 0 over-weighted), packet version 0..7, source data 0..64 mostly; "
        "decoder configuration = the generated timestamp length; oracle = reference PUS-C TM encoder; non-trivial = timestamp length "
        "not in {0,7} or dest id != 0 or time ref != 0 or version != 0"
    ),
    clauses=CLAUSES,
    assumptions=[
        "vf/ref/pus.py is the trusted statement of the format (pinned to the ping TM vector)",
        "decoding with a timestamp length other than the one packed is outside the statement",
    ],
)
