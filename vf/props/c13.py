"""C13 - space-packet stream parser reassembles losslessly under any fragmentation."""
from __future__ import annotations

import itertools
from collections import deque

from hypothesis import strategies as st

from ..core import Clause, Dev, HistorySpec, eq, true
from ..prop import Property
from ..ref import ccsds as RC
from ..strategies import uint


def _sp():
    from spacepackets.ccsds import spacepacket as sp

    return sp


def repair_garbage(g: bytes, ids, next_byte):
    """Deterministically nudge garbage octets so that no 2-octet window over the garbage, or over
    the seam garbage|next packet, equals a registered packet id (13 bits)."""
    out = []
    for i, b in enumerate(g):
        last = i == len(g) - 1
        for d in range(256):
            c = (b + d) & 0xFF
            if out and (((out[-1] << 8) | c) & 0x1FFF) in ids:
                continue
            if last and next_byte is not None and (((c << 8) | next_byte) & 0x1FFF) in ids:
                continue
            break
        out.append(c)
    return bytes(out)


class Stream:
    """Ground truth + driver: the stream is built from plain data, truth is known by construction."""

    def __init__(self, params):
        sp = _sp()
        self.sp = sp
        self.ids = list(dict.fromkeys(params["ids"]))  # 13-bit raw ids, unique, ordered
        # registered ids are built the way callers do: from the raw word, or from the three fields with the flag as bool or as the 0/1 bit
        self.id_objs = [
            sp.PacketId.from_raw(r) if i % 3 == 0 else sp.PacketId(sp.PacketType((r >> 12) & 1) if i % 3 == 1 else (r >> 12) & 1, bool((r >> 11) & 1) if i % 3 == 1 else (r >> 11) & 1, r & 0x7FF)
            for i, r in enumerate(self.ids)
        ]
        idset = set(self.ids)
        pk_bytes = []
        for p in params["packets"]:
            raw_id = self.ids[p["id"] % len(self.ids)]
            if isinstance(p["data"], dict):  # compact description of a long payload
                payload = bytes((p["data"]["fill"] + i * p["data"].get("step", 0)) & 0xFF for i in range(p["data"]["len"]))
            else:
                payload = bytes.fromhex(p["data"]) or b"\x00"
            if p.get("embed") is not None:
                # the data field carries a complete, well-formed space packet with a REGISTERED id (a TM dump, a wrapped TC) plus a few octets
                em = p["embed"]
                inner_id = self.ids[em["id"] % len(self.ids)]
                inner_data = bytes.fromhex(em["data"]) or b"\x01"
                inner = inner_id.to_bytes(2, "big") + (0xC000 | em["seq"]).to_bytes(2, "big") + (len(inner_data) - 1).to_bytes(2, "big") + inner_data
                payload = bytes.fromhex(em["pre"]) + inner + (bytes.fromhex(em["post"]) or b"\x00")
            w0 = (p["ver"] << 13) | raw_id
            hdr = w0.to_bytes(2, "big") + ((p["flags"] << 14) | p["seq"]).to_bytes(2, "big") + (len(payload) - 1).to_bytes(2, "big")
            pk_bytes.append(hdr + payload)
        def garbage_octets(g):
            if isinstance(g, dict):
                # a foreign packet id that looks almost registered: high octet of one registered id, low octet of another, any version bits
                a, b = self.ids[g["nm"][0] % len(self.ids)], self.ids[g["nm"][1] % len(self.ids)]
                return bytes([(g["ver"] << 5) | (a >> 8), b & 0xFF]) + bytes.fromhex(g["tail"])
            return bytes.fromhex(g)

        garbage = [garbage_octets(g) for g in params.get("garbage", [])]
        garbage += [b""] * (len(pk_bytes) + 1 - len(garbage))
        stream = bytearray()
        self.spans = []
        self.has_garbage = False
        for i, pk in enumerate(pk_bytes):
            g = repair_garbage(garbage[i], idset, pk[0])
            self.has_garbage = self.has_garbage or bool(g)
            stream += g
            self.spans.append((len(stream), len(stream) + len(pk)))
            stream += pk
        g = repair_garbage(garbage[len(pk_bytes)], idset, None)
        self.has_garbage = self.has_garbage or bool(g)
        stream += g
        self.stream = bytes(stream)
        self.packets = pk_bytes
        self.queue = deque()
        self.appended = 0
        self.returned = 0
        self.parses = 0
        self.shared_ids = None  # optional caller-owned list object reused (and updated in place) for every parser call

    def _ids_arg(self):
        if self.shared_ids is None:
            return self.id_objs
        self.shared_ids[:] = self.id_objs
        return self.shared_ids

    def append(self, n: int):
        n = max(0, min(n, len(self.stream) - self.appended))
        if n == 0:
            return 0
        self.queue.append(bytearray(self.stream[self.appended : self.appended + n]))
        self.appended += n
        return n

    def parse(self):
        devs = []
        self.parses += 1
        res = self.sp.parse_space_packets(self.queue, self._ids_arg())
        k = self.returned
        while k < len(self.spans) and self.spans[k][1] <= self.appended:
            k += 1
        expected = self.packets[self.returned : k]
        got = [bytes(r) for r in res]
        if got != expected:
            if len(got) < len(expected) and got == expected[: len(got)]:
                devs.append(Dev("returned.missing", f"complete packets not returned: got {len(got)} of {len(expected)} (appended {self.appended}/{len(self.stream)})"))
            elif len(got) > len(expected):
                devs.append(Dev("returned.extra", f"returned {len(got)} packets, {len(expected)} were completable (duplicate or invented packet)"))
            else:
                devs.append(Dev("returned.different", f"returned octets differ from the packets in the stream: got {[g.hex() for g in got][:2]} want {[e.hex() for e in expected][:2]}"))
            return devs
        self.returned = k
        last_end = self.spans[k - 1][1] if k > 0 else 0
        q = b"".join(bytes(c) for c in self.queue)
        qstart = self.appended - len(q)
        if qstart < 0 or self.stream[qstart : self.appended] != q:
            devs.append(Dev("queue.not_a_suffix", f"queue content {q[:16].hex()}.. is not the tail of what was appended"))
            return devs
        if qstart < last_end:
            devs.append(Dev("queue.keeps_returned_octets", f"queue starts at {qstart}, before the end {last_end} of the last returned packet"))
        upper = self.spans[k][0] if k < len(self.spans) and self.spans[k][0] < self.appended else self.appended
        if qstart > upper:
            devs.append(Dev("queue.lost_tail", f"queue starts at {qstart} but the not-yet-complete packet starts at {upper} (appended {self.appended}): tail octets were dropped"))
        if not self.has_garbage and qstart != last_end and not devs:
            devs.append(Dev("queue.not_exact_tail", f"queue starts at {qstart}, expected exactly {last_end}"))
        return devs

    def finish(self):
        """Append whatever is left and parse: everything must have been returned exactly once."""
        devs = []
        if self.appended < len(self.stream):
            self.append(len(self.stream) - self.appended)
        devs += self.parse()
        if not devs and self.returned != len(self.packets):
            devs.append(Dev("final.missing", f"{len(self.packets) - self.returned} packets never returned"))
        if not devs:
            again = self.sp.parse_space_packets(self.queue, self._ids_arg())
            if again:
                devs.append(Dev("final.duplicate", f"a further parse call returned {len(again)} packets again"))
        return devs


# ---- generators ----------------------------------------------------------------------------------


def st_ids():
    return st.lists(uint(13), min_size=1, max_size=3, unique=True)


def st_packet(max_data=40):
    data = st.one_of(st.binary(min_size=1, max_size=1), st.binary(min_size=1, max_size=8), st.binary(min_size=1, max_size=max_data))
    embed = st.one_of(
        st.none(), st.none(), st.none(),
        st.fixed_dictionaries({"id": st.integers(0, 2), "seq": uint(14), "data": st.binary(min_size=1, max_size=6).map(bytes.hex), "pre": st.binary(max_size=2).map(bytes.hex),
                               "post": st.binary(min_size=1, max_size=4).map(bytes.hex)}),
    )
    return st.fixed_dictionaries({"id": st.integers(0, 2), "ver": st.sampled_from([0, 0, 0, 1, 5, 7]), "flags": st.integers(0, 3), "seq": uint(14), "data": data.map(bytes.hex), "embed": embed})


def st_stream(max_packets=6, garbage=True, big=True):
    pk = st_packet()
    if big:
        pk = st.one_of(pk, pk, pk, pk, pk, st_packet(300))
    near_miss = st.fixed_dictionaries({"nm": st.tuples(st.integers(0, 2), st.integers(0, 2)).map(list), "ver": st.sampled_from([0, 0, 1, 6]), "tail": st.binary(max_size=6).map(bytes.hex)})
    g = st.one_of(st.just(""), st.just(""), st.binary(max_size=9).map(bytes.hex), near_miss) if garbage else st.just("")
    return st.fixed_dictionaries({"ids": st_ids(), "packets": st.lists(pk, min_size=0, max_size=max_packets), "garbage": st.lists(g, max_size=max_packets + 1)})


def stream_len(params) -> int:
    return len(Stream(params).stream)


def st_schedule():
    """A complete append/parse schedule: chunk sizes (biased to sizes that cut inside headers) and parse flags."""

    def for_stream(params):
        s = Stream(params)
        n = len(s.stream)
        interesting = sorted({p for a, b in s.spans for p in (a + 1, a + 2, a + 3, a + 4, a + 5, a + 6, a + 7, b - 1, b) if 0 < p < n})
        cuts = st.one_of(
            st.lists(st.integers(1, max(1, n - 1)), max_size=12, unique=True),
            st.lists(st.sampled_from(interesting), max_size=10, unique=True) if interesting else st.just([]),
            st.integers(1, 7).map(lambda step: list(range(step, n, step))),
        ).map(sorted)
        # a read that returned nothing: zero-length chunks appended before some of the chunks (a cut position used twice)
        empties = st.one_of(st.just([]), st.lists(st.integers(0, 12), max_size=4, unique=True))
        return st.tuples(st.just(params), cuts, st.lists(st.booleans(), min_size=0, max_size=40), st.booleans(), empties).map(
            lambda t: {"stream": t[0], "cuts": [c for c in t[1] if 0 < c < n], "parse": t[2], "parse_always": t[3], "empty_before": sorted(t[4])}
        )

    return st_stream().flatmap(for_stream)


def run_schedule(case):
    s = Stream(case["stream"])
    n = len(s.stream)
    bounds = [0] + [c for c in case["cuts"] if 0 < c < n] + [n]
    flags = case["parse"]
    empty_before = case.get("empty_before", ())
    for i in range(len(bounds) - 1):
        if i in empty_before:
            s.queue.append(bytearray())
        s.append(bounds[i + 1] - bounds[i])
        if (i + 100) in empty_before or (i in empty_before and i % 2):
            s.queue.append(bytearray())
        do_parse = case["parse_always"] or (flags[i % len(flags)] if flags else True)
        if do_parse and i < len(bounds) - 2:
            devs = s.parse()
            if devs:
                return [Dev(d.sub, f"after chunk {i} (appended {s.appended}): {d.detail}") for d in devs]
    return s.finish()


def _schedule_classes(case):
    s = Stream(case["stream"])
    n = len(s.stream)
    cuts = [c for c in case["cuts"] if 0 < c < n]
    out = []
    bounds = [0] + cuts + [n]
    for a, b in s.spans:
        for c in cuts:
            if a < c < b:
                out.append("cut inside packet")
                if c - a < 6:
                    out.append("cut inside header")
                if c - a == 6:
                    out.append("cut right after header")
                if c == b - 1:
                    out.append("cut one octet before end")
    if any(bounds[i + 1] - bounds[i] < 6 for i in range(len(bounds) - 1)) and n >= 7:
        out.append("chunk shorter than 6")
    if any(i < len(bounds) - 1 for i in case.get("empty_before", ())):
        out.append("zero-length chunk")
    if s.has_garbage:
        out.append("garbage")
    if any(isinstance(g, dict) for g in case["stream"].get("garbage", [])) and len(set(s.ids)) >= 2:
        out.append("garbage with an almost-registered id")
    if any(p.get("embed") is not None for p in case["stream"]["packets"]):
        out.append("payload embeds a complete registered packet")
    if len(s.packets) >= 2:
        out.append(">= 2 packets")
    if not case["parse_always"] and case["parse"] and not all(case["parse"]):
        out.append("several appends per parse")
    return sorted(set(out))


def _schedule_nt(case):
    return "cut inside packet" in _schedule_classes(case)


# ---- two independent links served by one caller: same id-list object updated in place between calls ----------


def st_two_links():
    one = st_stream(max_packets=3, big=False)
    return st.tuples(one, one, st.lists(st.tuples(st.integers(0, 1), st.integers(1, 12), st.booleans()), min_size=2, max_size=30)).map(
        lambda t: {"a": t[0], "b": t[1], "steps": [list(x) for x in t[2]]}
    )


def run_two_links(case):
    """Each link must behave exactly as if it were alone: the parser keeps no state between calls, in particular none keyed on the
    identity of the id sequence it is given."""
    links = [Stream(case["a"]), Stream(case["b"])]
    shared = []
    for ln in links:
        ln.shared_ids = shared
    for i, (which, n, do_parse) in enumerate(case["steps"]):
        ln = links[which]
        ln.append(n)
        if do_parse:
            devs = ln.parse()
            if devs:
                return [Dev(d.sub, f"link {'ab'[which]} after step {i}: {d.detail}") for d in devs]
    for which, ln in enumerate(links):
        devs = ln.finish()
        if devs:
            return [Dev(d.sub, f"link {'ab'[which]} at the end: {d.detail}") for d in devs]
    return []


def _two_links_classes(case):
    a, b = Stream(case["a"]), Stream(case["b"])
    out = []
    if set(a.ids) != set(b.ids):
        out.append("links with different id sets")
    if a.packets and b.packets:
        out.append("packets on both links")
    which = [w for w, _, p in case["steps"] if p]
    if any(which[i] != which[i + 1] for i in range(len(which) - 1)):
        out.append("parse calls alternate between links")
    return out


# ---- exhaustive fragmentations of short streams ----------------------------------------------------

SHORT_STREAMS = [
    {"ids": [0x0803], "packets": [{"id": 0, "ver": 0, "flags": 3, "seq": 1, "data": "aa"}], "garbage": []},
    {"ids": [0x0803], "packets": [{"id": 0, "ver": 0, "flags": 3, "seq": 1, "data": "0803"}, {"id": 0, "ver": 0, "flags": 3, "seq": 2, "data": "bb"}], "garbage": []},
    {"ids": [0x1801, 0x0002], "packets": [{"id": 1, "ver": 5, "flags": 0, "seq": 0x3FFF, "data": "010203"}, {"id": 0, "ver": 0, "flags": 3, "seq": 0, "data": "ff"}], "garbage": []},
    {"ids": [0x0003], "packets": [{"id": 0, "ver": 0, "flags": 3, "seq": 7, "data": "0a0b0c0d"}], "garbage": ["0000", "00"]},
    {"ids": [0x07FF], "packets": [{"id": 0, "ver": 0, "flags": 1, "seq": 2, "data": "11"}, {"id": 0, "ver": 0, "flags": 2, "seq": 3, "data": "22"}], "garbage": ["", "a1", ""]},
]


MAX_SIZE_STREAM = {"ids": [0x0805], "packets": [{"id": 0, "ver": 0, "flags": 3, "seq": 1, "data": {"len": 65536, "fill": 1, "step": 3}}, {"id": 0, "ver": 0, "flags": 3, "seq": 2, "data": "aabb"}], "garbage": []}
MAX_SIZE_CUTS = (1, 5, 6, 7, 4096, 65535, 65536, 65541, 65542, 65543, 65548)


MANY_PACKETS_STREAM = {"ids": [0x0801, 0x1802], "packets": [{"id": i % 2, "ver": 0, "flags": 3, "seq": i % 16384, "data": f"{i % 256:02x}"} for i in range(3000)], "garbage": []}


def enum_fragmentations(tier, shard, nshards, rng):
    idx = 0
    # thousands of small packets back to back, handed to the parser in one piece / in a few pieces (one radio frame, one file read)
    for cuts in ([], [7], [10500], [3, 21000 - 4], list(range(4096, 21000, 4096))):
        idx += 1
        if idx % nshards == shard:
            yield {"stream": MANY_PACKETS_STREAM, "cuts": cuts, "parse": [], "parse_always": True}
    # a packet of the maximum size a space packet can have (length field 0xFFFF, 65542 octets) followed by a small one: 0, 1 and 2 cuts from a list
    for r in (0, 1, 2):
        for cuts in itertools.combinations(MAX_SIZE_CUTS, r):
            idx += 1
            if idx % nshards == shard:
                yield {"stream": MAX_SIZE_STREAM, "cuts": list(cuts), "parse": [], "parse_always": True}
    for si, params in enumerate(SHORT_STREAMS):
        n = len(Stream(params).stream)
        positions = list(range(1, n))
        if tier == "thorough":
            subsets = itertools.chain.from_iterable(itertools.combinations(positions, r) for r in range(0, len(positions) + 1))
        else:
            subsets = itertools.chain.from_iterable(itertools.combinations(positions, r) for r in range(0, 4))
        for cuts in subsets:
            idx += 1
            if idx % nshards != shard:
                continue
            yield {"stream": params, "cuts": list(cuts), "parse": [], "parse_always": True}
            if len(cuts) <= 2:  # the same fragmentation with a zero-length chunk before each of its chunks in turn (parse after every append / only at the end)
                for j in range(len(cuts) + 1):
                    yield {"stream": params, "cuts": list(cuts), "parse": [], "parse_always": True, "empty_before": [j]}
                    yield {"stream": params, "cuts": list(cuts), "parse": [False], "parse_always": False, "empty_before": [j]}


# ---- rule-based machine -------------------------------------------------------------------------------


class ParserMachine(HistorySpec):
    max_steps = 40

    def init_strategy(self):
        return st_stream(max_packets=4, big=False)

    def ops(self):
        return {
            "append": st.one_of(st.integers(1, 7), st.integers(1, 7), st.integers(1, 60)),
            "parse": st.just(0),
            "append_and_parse": st.integers(1, 12),
            "append_empty": st.just(0),
            "finish": st.just(0),
        }

    def start(self, params):
        return Stream(params)

    def step(self, s, name, arg):
        if name == "append":
            s.append(arg)
            return []
        if name == "parse":
            return s.parse()
        if name == "append_empty":
            s.queue.append(bytearray())
            return []
        if name == "append_and_parse":
            s.append(arg)
            return s.parse()
        return s.finish()


def _machine_nt(trace):
    s = Stream(trace["init"])
    pos = 0
    for name, arg in trace["steps"]:
        if name in ("append", "append_and_parse"):
            pos = min(len(s.stream), pos + arg)
            if any(a < pos < b for a, b in s.spans):
                return True
    return False


def _machine_classes(trace):
    names = [n for n, _ in trace["steps"]]
    out = []
    if "finish" in names:
        out.append("finished")
    if any(names[i] == "parse" and names[i + 1] == "parse" for i in range(len(names) - 1)):
        out.append("parse twice in a row")
    if any(names[i] == "append" and names[i + 1] == "append" for i in range(len(names) - 1)):
        out.append("several appends per parse")
    if _machine_nt(trace):
        out.append("cut inside packet")
    if "append_empty" in names:
        out.append("zero-length chunk")
    return out


CLAUSES = [
    Clause(
        id="C13.schedules",
        doc="generated packet sequences (with constructive inter-packet garbage) x generated cut positions x generated parse-call placement; truth known by construction",
        strategy=st_schedule,
        check=run_schedule,
        nontrivial=_schedule_nt,
        classify=_schedule_classes,
        required=["cut inside packet", "cut inside header", "cut right after header", "cut one octet before end", "chunk shorter than 6", "garbage", ">= 2 packets", "several appends per parse", "payload embeds a complete registered packet", "zero-length chunk", "garbage with an almost-registered id"],
        n={"quick": 1200, "thorough": 10000},
    ),
    Clause(
        id="C13.fragmentations.exhaustive",
        doc="short streams: every subset of cut positions (thorough) / all fragmentations with <= 3 cuts (quick), parse after every append",
        kind="enum",
        enum=enum_fragmentations,
        check=run_schedule,
        nontrivial=_schedule_nt,
        classify=_schedule_classes,
        required=["cut inside header", "cut right after header", "cut one octet before end"],
        shards={"quick": 4, "thorough": 16},
        exhaustive_note="5 short streams (8..21 octets): all 2^(n-1) fragmentations in the thorough tier, all with <= 3 cuts in the quick tier",
    ),
    Clause(
        id="C13.two_links",
        doc="two independent streams with their own id sets are fed and parsed in an interleaved order through ONE id-list object that the caller updates in place before each call; each link must behave as if alone",
        strategy=st_two_links,
        check=run_two_links,
        nontrivial=lambda c: set(_two_links_classes(c)) >= {"links with different id sets", "packets on both links", "parse calls alternate between links"},
        classify=_two_links_classes,
        required=["links with different id sets", "packets on both links", "parse calls alternate between links"],
        n={"quick": 400, "thorough": 4000},
    ),
    Clause(
        id="C13.machine",
        doc="rule-based state machine: append(n) / parse / append_and_parse / finish in any interleaving, invariants after every parse",
        kind="history",
        history=ParserMachine(),
        nontrivial=_machine_nt,
        classify=_machine_classes,
        required=["cut inside packet", "finished", "several appends per parse"],
        n={"quick": 300, "thorough": 3000},
    ),
]

PROPERTY = Property(
    id="C13",
    level="exploration",
    rule=(
        "1..3 registered packet ids (13-bit, boundary-weighted), 0..6 packets of 7..46 (sometimes 306) octets with arbitrary payload and version bits, optional inter-packet garbage "
        "repaired so that no 2-octet window over garbage or the garbage/packet seam can be a registered id; schedules = cut positions (random, header-internal, fixed small steps) x "
        "parse placement; plus all fragmentations of 5 short streams; plus a rule-based machine; oracle = the construction itself (which octets belong to which packet); non-trivial = "
        "at least one cut strictly inside a packet"
    ),
    clauses=CLAUSES,
    assumptions=[
        "garbage that could be a registered packet id is outside the statement and never generated",
        "with garbage present the queue is required to be a suffix of the appended octets that starts no later than the not-yet-complete packet and no earlier than the end of the last returned packet; without garbage it must be exactly the tail",
    ],
)
