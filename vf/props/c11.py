"""C11 - lengths track mutations, pack is repeatable, caller inputs are not modified."""
from __future__ import annotations

import copy

from hypothesis import strategies as st

from .. import cfdp_model as M
from ..core import Clause, Dev, HistorySpec, eq, true
from ..prop import Property
from ..ref import cfdp as R
from ..ref import pus as RP
from ..ref import uslp as RU
from ..strategies import hexblob, name, uint
from . import c02, c03, c07, c17


def u32():
    return uint(32)


# =====================================================================================================
# CFDP PDUs
# =====================================================================================================


class PduState:
    def __init__(self, p):
        self.kind = p["kind"]
        self.model = copy.deepcopy(p)
        self.obj = M.build_pdu(p)
        self.setters = 0


def st_init_pdu(kind):
    def fix(p):
        p = copy.deepcopy(p)
        if kind == "nak":
            p["start"] &= 0xFFFFFFFF
            p["end"] &= 0xFFFFFFFF
            p["segs"] = [[a & 0xFFFFFFFF, b & 0xFFFFFFFF] for a, b in p["segs"]]
        if kind == "keepalive":
            p["progress"] &= 0xFFFFFFFF
        return p

    return M.st_pdu(kind, small=True).map(fix)


def check_pdu_state(s: PduState, label=""):
    """The per-step invariant for a CFDP PDU object against its plain-data model."""
    devs = []
    kind = s.kind
    fresh = M.build_pdu(s.model)
    true(devs, "eq_fresh_before_pack", bool(s.obj == fresh), "object != freshly constructed object with the same final values (before packing)")
    raw = bytes(s.obj.pack())
    want = M.ref_pdu(s.model)
    eq(devs, "len_vs_reported", len(raw), s.obj.packet_len, "len(pack()) vs packet_len")
    hl = R.header_len(s.model["conf"])
    eq(devs, "len_field", int.from_bytes(raw[1:3], "big"), len(raw) - hl, "data-field length inside the octets vs octets after the header")
    eq(devs, "bytes_vs_fresh", raw, bytes(fresh.pack()), "octets vs freshly constructed object")
    eq(devs, "bytes_vs_reference", raw, want, "octets vs reference encoder")
    eq(devs, "pack_twice", bytes(s.obj.pack()), raw, "second pack() differs")
    true(devs, "eq_fresh_after_pack", bool(s.obj == fresh), "packing changed equality with the fresh object")
    eq(devs, "reported_after_pack", s.obj.packet_len, len(raw), "packet_len after packing")
    return devs


class PduMachine(HistorySpec):
    max_steps = 30

    def __init__(self, kind):
        self.kind = kind

    def init_strategy(self):
        return st_init_pdu(self.kind)

    def ops(self):
        k = self.kind
        ops = {"pack": st.just(0), "decode_and_continue": st.just(0)}
        ent = st.one_of(st.none(), M.st_entity_tlv().map(lambda t: t["id"]))
        # the entity the PDU already names, spelled with another width (same number: entity-id TLVs compare by number)
        same_other_width = st.sampled_from([1, 2, 4, 8])
        if k == "eof":
            ops["set_fault_location"] = ent
            ops["set_fault_location_same_entity_other_width"] = same_other_width
        elif k == "finished":
            ops["set_fault_location"] = ent
            ops["set_fault_location_same_entity_other_width"] = same_other_width
            ops["set_responses"] = st.lists(M.st_fsresp_tlv(8, 4), max_size=3)
            ops["set_condition_code"] = st.sampled_from(M.CONDITION_CODES)
            # any code, also one that does not admit the fault location the PDU currently holds: that intermediate state is outside the
            # statement (not a valid parameter set) and is not judged - but every valid state reached afterwards is
            ops["set_condition_code_any"] = st.sampled_from(M.CONDITION_CODES)
            # the same detour as one rule: (a fault location if there is none,) a code that forbids it, optionally another setter while the
            # parameter set is not valid, then a code that admits the fault location again
            ops["condition_code_detour_and_back"] = st.tuples(st.sampled_from([0, 11]), st.sampled_from(M.FIN_FAULT_CCS), M.st_entity_tlv().map(lambda t: t["id"]),
                                                              st.one_of(st.none(), st.lists(M.st_fsresp_tlv(8, 4), max_size=2))).map(list)
        elif k == "metadata":
            ops["set_options"] = st.one_of(st.none(), st.lists(M.st_option_tlv(), min_size=1, max_size=3))
            ops["append_option_in_place_and_set_again"] = M.st_option_tlv()
            ops["set_source_file_name"] = st.one_of(st.none(), name(24, min_chars=1))
            ops["set_dest_file_name"] = st.one_of(st.none(), name(24, min_chars=1))
        elif k == "nak":
            ops["set_segment_requests"] = st.lists(st.tuples(u32(), u32()).map(list), max_size=5)
            ops["set_file_flag"] = st.integers(0, 1)
            # the caller appends to the list the PDU holds and then calls a documented setter - another one: file_flag, with the value it has
            ops["append_segment_in_place_then_set_same_file_flag"] = st.tuples(u32(), u32()).map(list)
        elif k == "filedata":
            ops["set_file_data"] = st.one_of(st.just(""), hexblob(40))
            ops["set_segment_metadata"] = st.one_of(st.none(), st.fixed_dictionaries({"state": st.integers(0, 3), "data": hexblob(20)}))
        elif k == "keepalive":
            ops["set_file_flag"] = st.integers(0, 1)
        return ops

    def start(self, p):
        return PduState(p)

    @staticmethod
    def outside_domain(s) -> bool:
        return s.kind == "finished" and s.model.get("fault") is not None and s.model["cc"] not in M.FIN_FAULT_CCS

    def invariant(self, s):
        if self.outside_domain(s):
            return []
        return check_pdu_state(s)

    def enabled(self, s, name):
        # while the parameter set is not a valid one only setters run (they are what leads back to a valid set)
        return not (self.outside_domain(s) and name in ("pack", "decode_and_continue", "set_fault_location"))

    def step(self, s, name, a):
        from spacepackets.cfdp import defs as cd
        from spacepackets.cfdp.pdu.file_data import RecordContinuationState, SegmentMetadata

        m, o = s.model, s.obj
        if name == "pack":
            return []
        if name == "decode_and_continue":
            s.obj = M.pdu_class(s.kind).unpack(bytes(o.pack()))
            return []
        s.setters += 1
        if name == "set_fault_location":
            allowed = m["cc"] != 0 if s.kind == "eof" else m["cc"] in M.FIN_FAULT_CCS
            v = a if allowed else None
            o.fault_location = None if v is None else M.build_tlv({"t": "entity", "id": v})
            m["fault"] = v
        elif name == "set_fault_location_same_entity_other_width":
            cur = m.get("fault")
            allowed = m["cc"] != 0 if s.kind == "eof" else m["cc"] in M.FIN_FAULT_CCS
            if cur is not None and allowed:
                num = int(cur, 16)
                widths = [w for w in (1, 2, 4, 8) if num < (1 << (8 * w)) and 2 * w != len(cur)]
                if widths:
                    w = widths[a % len(widths)]
                    v = num.to_bytes(w, "big").hex()
                    o.fault_location = M.build_tlv({"t": "entity", "id": v})
                    m["fault"] = v
        elif name == "set_responses":
            o.file_store_responses = [M.build_tlv(r) for r in a]
            m["responses"] = a
        elif name == "set_condition_code":
            cc = a if (m["fault"] is None or a in M.FIN_FAULT_CCS) else 4
            o.condition_code = cd.ConditionCode(cc)
            m["cc"] = cc
        elif name == "set_condition_code_any":
            o.condition_code = cd.ConditionCode(a)
            m["cc"] = a
        elif name == "condition_code_detour_and_back":
            bad, good, ent_id, responses = a
            if m.get("fault") is None and m["cc"] in M.FIN_FAULT_CCS:
                o.fault_location = M.build_tlv({"t": "entity", "id": ent_id})
                m["fault"] = ent_id
            if m.get("fault") is not None:
                o.condition_code = cd.ConditionCode(bad)
                if responses is not None:
                    o.file_store_responses = [M.build_tlv(r) for r in responses]
                    m["responses"] = responses
                o.condition_code = cd.ConditionCode(good)
                m["cc"] = good
        elif name == "set_options":
            o.options = None if a is None else [M.build_tlv(t) for t in a]
            m["options"] = a
        elif name == "append_option_in_place_and_set_again":
            # the caller keeps ONE list: takes what the PDU holds, appends to it in place, hands the same list object to the documented setter
            held = o.options
            if held is None:
                held = []
            held.append(M.build_tlv(a))
            o.options = held
            m["options"] = list(m.get("options") or []) + [a]
        elif name == "set_source_file_name":
            o.source_file_name = a
            m["src_name"] = a
        elif name == "set_dest_file_name":
            o.dest_file_name = a
            m["dst_name"] = a
        elif name == "set_segment_requests":
            o.segment_requests = [tuple(x) for x in a]
            m["segs"] = a
        elif name == "append_segment_in_place_then_set_same_file_flag":
            o.segment_requests.append(tuple(a))
            o.file_flag = cd.LargeFileFlag(m["conf"]["large"])
            m["segs"] = list(m["segs"]) + [a]
        elif name == "set_file_flag":
            o.file_flag = cd.LargeFileFlag(a)
            m["conf"]["large"] = a
        elif name == "set_file_data":
            o.file_data = bytes.fromhex(a)
            m["data"] = a
        elif name == "set_segment_metadata":
            o.segment_metadata = None if a is None else SegmentMetadata(RecordContinuationState(a["state"]), bytes.fromhex(a["data"]))
            m["meta"] = a
        return []


def _pdu_trace_classes(trace):
    names = [n for n, _ in trace["steps"]]
    setters = [n for n in names if n.startswith("set_")]
    c = trace["init"]["conf"]
    out = []
    if len(setters) >= 2:
        out.append(">= 2 setter calls")
    if setters and c["crc"]:
        out.append("setter with CRC")
    if setters and c["large"]:
        out.append("setter with large file")
    for i, n in enumerate(names):
        if n == "decode_and_continue" and any(x.startswith("set_") for x in names[i + 1 :]):
            out.append("setter after decode")
            break
    if "set_file_flag" in names:
        out.append("file flag flip")
    return out


# =====================================================================================================
# PUS TC / TM
# =====================================================================================================


class TcMachine(HistorySpec):
    max_steps = 25

    def init_strategy(self):
        return c02.st_tc(big=(255, 256))

    def ops(self):
        return {"pack": st.just(0), "decode_and_continue": st.just(0), "set_app_data": st.one_of(st.just(""), hexblob(48), hexblob(300, 200)), "set_apid": uint(11), "set_seq_count": uint(14), "set_source_id": uint(16),
                # the packet arrives with a damaged trailer: the caller takes the packet object the checksum refusal carries and goes on with it
                "set_continue_with_packet_carried_by_crc_refusal": st.just(0)}

    def start(self, p):
        from ..strategies import expand_fill

        _, tcm, _ = c02._m()
        m = copy.deepcopy(p)
        m["app_data"] = expand_fill(p["app_data"]).hex()
        return {"m": m, "o": c02.build_tc(tcm, m), "tcm": tcm}

    def step(self, s, name, a):
        m, o = s["m"], s["o"]
        if name == "decode_and_continue":
            s["o"] = s["tcm"].PusTc.unpack(bytes(o.pack()))
        elif name == "set_continue_with_packet_carried_by_crc_refusal":
            damaged = bytearray(o.pack())
            damaged[-1] ^= 0x01
            try:
                s["tcm"].PusTc.unpack(bytes(damaged))
            except Exception as e:  # noqa: BLE001 - the carried packet is what is looked at
                if getattr(e, "tc", None) is not None:
                    s["o"] = e.tc
        elif name == "set_app_data":
            o.app_data = bytes.fromhex(a)
            m["app_data"] = a
        elif name == "set_apid":
            o.apid = a
            m["apid"] = a
        elif name == "set_seq_count":
            o.seq_count = a
            m["seq"] = a
        elif name == "set_source_id":
            o.source_id = a
            m["source_id"] = a
        return []

    def invariant(self, s):
        devs = []
        m, o = s["m"], s["o"]
        app = bytes.fromhex(m["app_data"])
        fresh = c02.build_tc(s["tcm"], m)
        true(devs, "eq_fresh_before_pack", o == fresh, "TC != freshly constructed TC with the same final values")
        raw = bytes(o.pack())
        eq(devs, "len_vs_reported", len(raw), o.packet_len, "len(pack()) vs packet_len")
        eq(devs, "len_field", int.from_bytes(raw[4:6], "big"), len(raw) - 7, "space packet length field vs octets")
        eq(devs, "bytes_vs_fresh", raw, bytes(fresh.pack()))
        eq(devs, "bytes_vs_reference", raw, RP.pus_tc(m["apid"], m["seq"], m["service"], m["subservice"], m["source_id"], m["ack"], app))
        eq(devs, "pack_twice", bytes(o.pack()), raw)
        true(devs, "eq_fresh_after_pack", o == fresh, "packing changed equality")
        return devs


class TmMachine(HistorySpec):
    max_steps = 25

    def init_strategy(self):
        return c03.st_tm(big=(255, 256))

    def ops(self):
        return {"pack": st.just(0), "decode_and_continue": st.just(0), "set_tm_data": st.one_of(st.just(""), hexblob(48), hexblob(300, 200)), "set_apid": uint(11),
                "set_continue_with_packet_carried_by_crc_refusal": st.just(0),
                # the time stamp replaced by one of another length through the secondary header, then the data setter (which recomputes the length)
                "set_timestamp_through_header_then_tm_data": st.tuples(st.binary(max_size=12).map(bytes.hex), st.one_of(st.just(""), hexblob(24))).map(list)}

    def start(self, p):
        from ..strategies import expand_fill

        _, tmm, _, _ = c03._m()
        m = copy.deepcopy(p)
        m["source_data"] = expand_fill(p["source_data"]).hex()
        return {"m": m, "o": c03.build_tm(tmm, m, bytes.fromhex(m["timestamp"]), bytes.fromhex(m["source_data"])), "tmm": tmm}

    def step(self, s, name, a):
        m, o = s["m"], s["o"]
        if name == "decode_and_continue":
            s["o"] = s["tmm"].PusTm.unpack(bytes(o.pack()), len(m["timestamp"]) // 2)
        elif name == "set_continue_with_packet_carried_by_crc_refusal":
            damaged = bytearray(o.pack())
            damaged[-1] ^= 0x01
            try:
                s["tmm"].PusTm.unpack(bytes(damaged), len(m["timestamp"]) // 2)
            except Exception as e:  # noqa: BLE001
                if getattr(e, "tm", None) is not None:
                    s["o"] = e.tm
        elif name == "set_timestamp_through_header_then_tm_data":
            o.pus_tm_sec_header.timestamp = bytes.fromhex(a[0])
            o.tm_data = bytes.fromhex(a[1])
            m["timestamp"], m["source_data"] = a[0], a[1]
        elif name == "set_tm_data":
            o.tm_data = bytes.fromhex(a)
            m["source_data"] = a
        elif name == "set_apid":
            o.apid = a
            m["apid"] = a
        return []

    def invariant(self, s):
        devs = []
        m, o = s["m"], s["o"]
        stamp, src = bytes.fromhex(m["timestamp"]), bytes.fromhex(m["source_data"])
        fresh = c03.build_tm(s["tmm"], m, stamp, src)
        true(devs, "eq_fresh_before_pack", o == fresh, "TM != freshly constructed TM with the same final values")
        raw = bytes(o.pack())
        eq(devs, "len_vs_reported", len(raw), o.packet_len, "len(pack()) vs packet_len")
        eq(devs, "len_field", int.from_bytes(raw[4:6], "big"), len(raw) - 7, "space packet length field vs octets")
        eq(devs, "bytes_vs_fresh", raw, bytes(fresh.pack()))
        eq(devs, "bytes_vs_reference", raw, RP.pus_tm(m["apid"], m["seq"], m["service"], m["subservice"], m["msg_counter"], m["dest_id"], m["time_ref"], stamp, src, ver=m["ver"]))
        eq(devs, "pack_twice", bytes(o.pack()), raw)
        true(devs, "eq_fresh_after_pack", o == fresh, "packing changed equality")
        return devs


def _pus_trace_classes(trace):
    names = [n for n, _ in trace["steps"]]
    setters = [n for n in names if n.startswith("set_")]
    out = []
    if len(setters) >= 2:
        out.append(">= 2 setter calls")
    for i, n in enumerate(names):
        if n == "decode_and_continue" and any(x.startswith("set_") for x in names[i + 1 :]):
            out.append("setter after decode")
            break
    if any(n in ("set_app_data", "set_tm_data") for n in names):
        out.append("data setter")
    return out


# =====================================================================================================
# USLP transfer frame
# =====================================================================================================


class FrameMachine(HistorySpec):
    max_steps = 25

    def init_strategy(self):
        return c17.st_frame()

    def ops(self):
        return {"pack": st.just(0), "set_tfdz": st.one_of(st.just(""), hexblob(64), hexblob(200, 100)), "update_frame_len": st.just(0), "update_frame_len_b": st.just(0)}

    def start(self, c):
        fr, hc = c17.build_frame(c)
        _, F, _ = c17._m()
        return {"m": copy.deepcopy(c), "hc": hc, "o": fr, "F": F, "len_field": hc["frame_len"]}

    def _size(self, s):
        c, hc = s["m"], s["hc"]
        trunc = c["kind"] == "truncated"
        return (4 if trunc else 7 + hc["vcf_len"]) + (len(c["insert_zone"]) // 2 if c["insert_zone"] else 0) + 1 + (2 if c["pointer"] is not None else 0) + len(c["tfdz"]) // 2 + (4 if c["ocf"] else 0) + (len(c["fecf"]) // 2 if c["fecf"] else 0)

    def step(self, s, name, a):
        devs = []
        c, o, F = s["m"], s["o"], s["F"]
        trunc = c["kind"] == "truncated"
        ft = c17.frame_type_of(F, c)
        if name == "set_tfdz":
            o.tfdf.tfdz = bytes.fromhex(a)
            c["tfdz"] = a
        elif name.startswith("update_frame_len"):
            o.set_frame_len_in_header()
            size = self._size(s)
            s["len_field"] = size - 1
            raw = bytes(o.pack(truncated=trunc, frame_type=ft))
            if not trunc:
                eq(devs, "frame.len_field_after_update", int.from_bytes(raw[4:6], "big"), len(raw) - 1, "frame length field after updating")
            # a fresh object built from the final values, length updated the same way
            fresh, _ = c17.build_frame(c)
            fresh.set_frame_len_in_header()
            eq(devs, "frame.bytes_vs_fresh_after_update", raw, bytes(fresh.pack(truncated=trunc, frame_type=ft)))
        return devs

    def invariant(self, s):
        devs = []
        c, o, F = s["m"], s["o"], s["F"]
        trunc = c["kind"] == "truncated"
        ft = c17.frame_type_of(F, c)
        raw = bytes(o.pack(truncated=trunc, frame_type=ft))
        eq(devs, "frame.len_vs_reported", len(raw), o.len(), "len(pack()) vs len()")
        eq(devs, "frame.len_vs_model", len(raw), self._size(s))
        eq(devs, "frame.bytes_vs_reference", raw, c17.ref_frame(c, s["hc"], s["len_field"]))
        eq(devs, "frame.pack_twice", bytes(o.pack(truncated=trunc, frame_type=ft)), raw)
        return devs


def _frame_trace_classes(trace):
    names = [n for n, _ in trace["steps"]]
    out = [trace["init"]["kind"]]
    if names.count("set_tfdz") >= 2:
        out.append(">= 2 setter calls")
    for i, n in enumerate(names):
        if n == "set_tfdz" and any(x.startswith("update_frame_len") for x in names[i + 1 :]):
            out.append("update after data zone change")
            break
    return out


# =====================================================================================================
# caller inputs are not modified by construction or packing
# =====================================================================================================


def snapshot_inputs(objs):
    """Plain-data snapshot of the caller-side objects handed to a constructor."""
    snap = {}
    for k, v in objs.items():
        if k == "conf":
            snap[k] = M.obs_conf_obj(v)
        elif k == "tlvs":
            snap[k] = [M.obs_tlv(t) for t in v]
        elif k == "params":
            d = {}
            for f, x in vars(v).items():
                if isinstance(x, (bytes, bytearray)):
                    d[f] = bytes(x).hex()
                elif isinstance(x, list):
                    d[f] = [M.obs_tlv(t) for t in x]
                elif hasattr(x, "pack") and hasattr(x, "tlv_type"):
                    d[f] = M.obs_tlv(x)
                elif hasattr(x, "metadata"):
                    d[f] = [int(x.record_cont_state), bytes(x.metadata).hex()]
                else:
                    d[f] = x if x is None or isinstance(x, (str, bool)) else int(x)
            snap[k] = d
        elif k == "segs":
            snap[k] = [list(x) for x in v]
        else:
            snap[k] = copy.deepcopy(v)
    return snap


def check_caller_inputs(p):
    from spacepackets.cfdp import defs as cd
    from spacepackets.cfdp import pdu as P
    from spacepackets.cfdp.pdu.file_data import RecordContinuationState, SegmentMetadata
    from spacepackets.cfdp.pdu.prompt import ResponseRequired

    devs = []
    conf = M.build_conf(p["conf"])
    k = p["kind"]
    inputs = {"conf": conf}
    if k == "eof":
        fault = None if p["fault"] is None else M.build_tlv({"t": "entity", "id": p["fault"]})
        if fault is not None:
            inputs["tlvs"] = [fault]
        mk = lambda: P.EofPdu(conf, bytes.fromhex(p["checksum"]), p["size"], fault, cd.ConditionCode(p["cc"]))  # noqa: E731
    elif k == "finished":
        fault = None if p["fault"] is None else M.build_tlv({"t": "entity", "id": p["fault"]})
        params = P.FinishedParams(cd.ConditionCode(p["cc"]), cd.DeliveryCode(p["delivery"]), cd.FileStatus(p["status"]), [M.build_tlv(r) for r in p["responses"]], fault)
        inputs["params"] = params
        mk = lambda: P.FinishedPdu(conf, params)  # noqa: E731
    elif k == "ack":
        mk = lambda: P.AckPdu(conf, P.DirectiveType(p["acked"]), cd.ConditionCode(p["cc"]), P.TransactionStatus(p["status"]))  # noqa: E731
    elif k == "metadata":
        params = P.MetadataParams(bool(p["closure"]), cd.ChecksumType(p["cktype"]), p["size"], p["src_name"], p["dst_name"])
        opts = None if p["options"] is None else [M.build_tlv(o) for o in p["options"]]
        inputs["params"] = params
        if opts is not None:
            inputs["tlvs"] = opts
        mk = lambda: P.MetadataPdu(conf, params, opts)  # noqa: E731
    elif k == "nak":
        segs = [tuple(s) for s in p["segs"]]
        inputs["segs"] = segs
        mk = lambda: P.NakPdu(conf, p["start"], p["end"], segs)  # noqa: E731
    elif k == "prompt":
        mk = lambda: P.PromptPdu(conf, ResponseRequired(p["resp"]))  # noqa: E731
    elif k == "keepalive":
        mk = lambda: P.KeepAlivePdu(conf, p["progress"])  # noqa: E731
    else:
        meta = None if p["meta"] is None else SegmentMetadata(RecordContinuationState(p["meta"]["state"]), bytes.fromhex(p["meta"]["data"]))
        params = P.FileDataParams(M.file_data_of(p), p["offset"], meta)
        inputs["params"] = params
        mk = lambda: P.FileDataPdu(conf, params)  # noqa: E731
    before = snapshot_inputs(inputs)
    x = mk()
    after_ctor = snapshot_inputs(inputs)
    for key in before:
        eq(devs, f"caller.{key}.after_construct", after_ctor[key], before[key], f"{k}: constructing the PDU modified the caller's {key}")
    raw = x.pack()
    x.pack()
    after_pack = snapshot_inputs(inputs)
    for key in before:
        eq(devs, f"caller.{key}.after_pack", after_pack[key], before[key], f"{k}: packing the PDU modified the caller's {key}")
    # a second PDU built from the same (supposedly untouched) inputs must give the same octets
    eq(devs, "caller.reuse", bytes(mk().pack()), bytes(raw), "second PDU from the same caller objects differs")
    # the configuration is copied on construction (every constructor does): PDUs built from one caller configuration are independent
    # of each other and of the caller's object - a header-level setter on one must reach neither its sibling nor the caller
    if k in ("nak", "keepalive"):
        vals = [p["start"], p["end"]] + [v for sg in p["segs"] for v in sg] if k == "nak" else [p["progress"]]
        target = None
        if not p["conf"]["large"]:
            target = cd.LargeFileFlag.LARGE
        elif all(v < (1 << 32) for v in vals):
            target = cd.LargeFileFlag.NORMAL
        if target is not None:
            a, b = mk(), mk()
            conf_before = M.obs_conf_obj(conf)
            a.file_flag = target
            eq(devs, "caller.conf.after_setter_on_pdu", M.obs_conf_obj(conf), conf_before, f"{k}: the file_flag setter of a PDU wrote into the caller's configuration")
            eq(devs, "sibling.pack_after_setter_on_other_pdu", bytes(b.pack()), bytes(raw), f"{k}: a setter on one PDU changed a sibling built from the same configuration")
            eq(devs, "sibling.packet_len_after_setter_on_other_pdu", b.packet_len, len(raw))
            q = copy.deepcopy(p)
            q["conf"]["large"] = int(target)
            eq(devs, "setter_target.pack", bytes(a.pack()), M.ref_pdu(q))
    if k == "finished":
        # PDUs from the convenience constructor are as independent as any others: setters on one (responses, fault location, codes)
        # leave a second one, and every one built later, at the plain success PDU with its own length
        s_a, s_b = P.FinishedPdu.success_pdu(M.build_conf(p["conf"])), P.FinishedPdu.success_pdu(M.build_conf(p["conf"]))
        want_s = M.ref_pdu({"kind": "finished", "conf": p["conf"], "cc": 0, "delivery": 0, "status": 2, "responses": [], "fault": None})
        s_a.file_store_responses = [M.build_tlv(r) for r in p["responses"]] or [M.build_tlv({"t": "fsresp", "action": 0, "status": 0, "n1": "x", "n2": "", "msg": ""})]
        s_a.condition_code = cd.ConditionCode(4)
        s_a.fault_location = M.build_tlv({"t": "entity", "id": "0102"})
        s_a.pack()
        for tag_s, obj_s in (("sibling", s_b), ("later", P.FinishedPdu.success_pdu(M.build_conf(p["conf"])))):
            eq(devs, f"success_pdu.{tag_s}_after_setters_on_another.pack", bytes(obj_s.pack()), want_s)
            eq(devs, f"success_pdu.{tag_s}_after_setters_on_another.packet_len", obj_s.packet_len, len(want_s))
    # ... and the caller going on to use (modify) its own configuration object does not reach into PDUs built earlier
    y = mk()
    conf.crc_flag = cd.CrcFlag(1 - p["conf"]["crc"])
    conf.file_flag = cd.LargeFileFlag(1 - p["conf"]["large"])
    conf.direction = cd.Direction(1 - int(conf.direction))
    eq(devs, "pdu.pack_after_caller_changed_its_config", bytes(y.pack()), bytes(raw), f"{k}: PDU follows later changes of the caller's configuration object")
    eq(devs, "pdu.packet_len_after_caller_changed_its_config", y.packet_len, len(raw))
    return devs


CFDP_KINDS = ("eof", "finished", "metadata", "nak", "filedata", "keepalive")

CLAUSES = [
    Clause(
        id=f"C11.{kind}",
        doc=f"{kind} PDU: rule-based machine over its documented setters + pack + decode_and_continue; after every step length, length field, octets (== fresh object == reference), repeatable pack, equality",
        kind="history",
        history=PduMachine(kind),
        nontrivial=lambda t: bool(_pdu_trace_classes(t)),
        classify=_pdu_trace_classes,
        required=[">= 2 setter calls", "setter with CRC", "setter with large file", "setter after decode"] + (["file flag flip"] if kind in ("nak", "keepalive") else []),
        n={"quick": 120, "thorough": 1000},
    )
    for kind in CFDP_KINDS
] + [
    Clause(
        id="C11.filedata_limit",
        doc="File Data PDU at the 16-bit data-field limit: a setter call that is refused for overflow, followed by valid setter calls - reported length, length field and "
            "octets are again those of the values the object reports (histories defined in c07.enum_limit)",
        kind="enum",
        enum=c07.enum_limit,
        check=c07.check_limit,
        classify=lambda c: [c["k"]],
        required=["grow_metadata", "grow_file_data"],
        shards={"quick": 8, "thorough": 8},
    ),
    Clause(
        id="C11.pus_tc",
        doc="PusTc: setters app_data / apid / seq_count / source_id, pack, decode_and_continue",
        kind="history",
        history=TcMachine(),
        nontrivial=lambda t: bool(_pus_trace_classes(t)),
        classify=_pus_trace_classes,
        required=[">= 2 setter calls", "setter after decode", "data setter"],
        n={"quick": 150, "thorough": 1200},
    ),
    Clause(
        id="C11.pus_tm",
        doc="PusTm: setters tm_data / apid, pack, decode_and_continue",
        kind="history",
        history=TmMachine(),
        nontrivial=lambda t: bool(_pus_trace_classes(t)),
        classify=_pus_trace_classes,
        required=[">= 2 setter calls", "setter after decode", "data setter"],
        n={"quick": 150, "thorough": 1200},
    ),
    Clause(
        id="C11.uslp_frame",
        doc="TransferFrame: data-zone setter and frame-length update; len() == len(pack()) always, length field == size-1 and octets == fresh object after updating",
        kind="history",
        history=FrameMachine(),
        nontrivial=lambda t: len(_frame_trace_classes(t)) > 1,
        classify=_frame_trace_classes,
        required=["fixed", "variable", "truncated", ">= 2 setter calls", "update after data zone change"],
        n={"quick": 150, "thorough": 1200},
    ),
    Clause(
        id="C11.caller_inputs",
        doc="constructing or packing any of the eight PDU kinds never modifies the PduConfig / params / TLV lists / segment lists the caller passed in",
        strategy=lambda: M.st_any_pdu(small=True),
        check=check_caller_inputs,
        nontrivial=lambda p: True,
        classify=lambda p: [p["kind"], f"dir {p['conf']['dir']}"],
        required=list(M.KINDS) + ["dir 0", "dir 1"],
        n={"quick": 1200, "thorough": 8000},
    ),
]

PROPERTY = Property(
    id="C11",
    level="exploration",
    rule=(
        "one Hypothesis rule-based machine per mutable packet class (EOF, Finished, Metadata, NAK, File Data, Keep Alive, PusTc, PusTm, USLP frame): initial object from the C02/C03/C06/C07/C17 "
        "generators (all header configurations), rules = documented setters with generated arguments + pack + decode_and_continue, invariant after every step; plus a caller-input clause over all "
        "eight PDU kinds; oracle = reference encoders and a freshly constructed object from the plain-data model; non-trivial = >= 2 setter calls, or a setter with CRC / large file, or a setter after decoding"
    ),
    clauses=CLAUSES,
    assumptions=[
        "setters write through to the params object a PDU holds (shared by design); 'not modified' is asserted for construction and packing only",
        "fault locations are only set with condition codes that admit one; file-flag flips are generated with values that fit 32 bits (the over-width refusal is C06's)",
        "for the USLP frame 'length field == size - 1' and 'octets == fresh object' are asserted after the frame-length update, as the statement says",
    ],
)
