"""C05 - CFDP fixed PDU header exact per 727.0-B-5 and round-trips."""
from __future__ import annotations

import itertools

from hypothesis import strategies as st

from ..cfdp_model import WIDTHS, build_conf, obs_header
from ..core import Clause, Dev, eq, expect_raise, true
from ..excs import allowed
from ..prop import Property
from ..ref import cfdp as R
from ..strategies import boundary_values, uint


def _lib():
    from spacepackets.cfdp import conf as cf
    from spacepackets.cfdp import defs as d
    from spacepackets.cfdp.pdu import header as H
    from spacepackets.exceptions import BytesTooShortError

    return cf, d, H, BytesTooShortError


def build_header(c):
    cf, d, H, _ = _lib()
    return H.PduHeader(
        pdu_type=d.PduType(c["pdu_type"]),
        segment_metadata_flag=d.SegmentMetadataFlag(c["seg_meta"]),
        pdu_data_field_len=c["dlen"],
        pdu_conf=build_conf(c),
    )


def want_obs(c):
    hl = 4 + 2 * c["idw"] + c["seqw"]
    return {
        "pdu_type": c["pdu_type"], "dir": c["dir"], "mode": c["mode"], "crc": c["crc"], "large": c["large"], "segctrl": c["segctrl"],
        "seg_meta": c["seg_meta"], "dlen": c["dlen"], "src": [c["src"], c["idw"]], "seq": [c["seq"], c["seqw"]], "dst": [c["dst"], c["idw"]],
        "header_len": hl, "packet_len": hl + c["dlen"],
    }


def check_header(c):
    cf, d, H, BytesTooShortError = _lib()
    devs = []
    want = R.header(c, c["pdu_type"], c["dir"], c["seg_meta"], c["dlen"])
    hl = 4 + 2 * c["idw"] + c["seqw"]
    conf = build_conf(c)
    eq(devs, "conf.header_len", conf.header_len(), hl)
    h = build_header(c)
    packed = h.pack()
    eq(devs, "enc.bytes", bytes(packed), want)
    eq(devs, "enc.len", len(packed), hl)
    eq(devs, "enc.header_len", h.header_len, hl)
    eq(devs, "enc.packet_len", h.packet_len, hl + c["dlen"])
    eq(devs, "enc.fields", obs_header(h), want_obs(c))
    eq(devs, "header_len_from_raw", H.AbstractPduBase.header_len_from_raw(bytes(want)), hl)
    tail = bytes.fromhex(c.get("tail", ""))
    for tag, buf in (("exact", bytes(want)), ("tail", bytes(want) + tail), ("bytearray", bytearray(want + tail))):
        u = H.PduHeader.unpack(buf)
        eq(devs, f"dec.fields.{tag}", obs_header(u), want_obs(c))
        eq(devs, f"dec.repack.{tag}", bytes(u.pack()), want)
        true(devs, f"dec.eq.{tag}", u == h, "unpack(pack(h)) != h")
    # histories: a header decoded earlier is not disturbed by decoding another one, by the caller reusing its buffer, or by
    # the caller modifying a buffer pack() returned
    from .. import cfdp_model as M
    from ..core import pack_fresh, scribble

    pack_fresh(devs, "hist.pack_returns_fresh_buffer", h.pack, want)
    from ..core import copies_equal

    copies_equal(devs, "hist.copy_of_header", h, lambda o: bytes(o.pack()), want)
    copies_equal(devs, "hist.copy_of_decoded_header", H.PduHeader.unpack(want), lambda o: obs_header(o), want_obs(c))
    copies_equal(devs, "hist.copy_of_configuration", build_conf(c), lambda o: bytes(H.PduHeader(d.PduType(c["pdu_type"]), d.SegmentMetadataFlag(c["seg_meta"]), c["dlen"], o).pack()), want)
    buf = bytearray(want + tail)
    u1 = H.PduHeader.unpack(buf)
    scribble(buf)
    oc = {**M.other_conf(c), "pdu_type": 1 - c["pdu_type"], "seg_meta": (1 - c["seg_meta"]) if c["pdu_type"] == 0 else 0, "dlen": (c["dlen"] + 0x0101) & 0xFFFF}
    want_b = R.header(oc, oc["pdu_type"], oc["dir"], oc["seg_meta"], oc["dlen"])
    u2 = H.PduHeader.unpack(want_b)
    eq(devs, "hist.other_header.fields", obs_header(u2), want_obs(oc))
    eq(devs, "hist.fields_after_another_header_was_decoded", obs_header(u1), want_obs(c))
    eq(devs, "hist.repack_after_another_header_was_decoded", bytes(u1.pack()), want)
    eq(devs, "hist.constructed_after_another_header_was_decoded", bytes(h.pack()), want)
    # positional construction of the configuration in the documented field order
    # (source id, destination id, sequence number, transmission mode, large-file flag, CRC flag, direction, segmentation control)
    from spacepackets.util import ByteFieldGenerator as _G

    pconf = cf.PduConfig(_G.from_int(c["idw"], c["src"]), _G.from_int(c["idw"], c["dst"]), _G.from_int(c["seqw"], c["seq"]), d.TransmissionMode(c["mode"]), d.LargeFileFlag(c["large"]),
                         d.CrcFlag(c["crc"]), d.Direction(c["dir"]), d.SegmentationControl(c["segctrl"]))
    eq(devs, "positional_conf.pack", bytes(H.PduHeader(d.PduType(c["pdu_type"]), d.SegmentMetadataFlag(c["seg_meta"]), c["dlen"], pconf).pack()), want)
    # the library's own default configuration, ids then set in place through the field's value (width 1): the two ids are independent
    dconf = cf.PduConfig.default()
    dconf.dest_entity_id.value = c["dst"] & 0xFF
    dconf.transaction_seq_num.value = c["seq"] & 0xFF
    hd = H.PduHeader(d.PduType(c["pdu_type"]), d.SegmentMetadataFlag(c["seg_meta"]), c["dlen"], dconf)
    cd_ = {"crc": int(dconf.crc_flag), "large": int(dconf.file_flag), "mode": int(dconf.trans_mode), "dir": int(dconf.direction), "segctrl": int(dconf.seg_ctrl), "idw": 1, "seqw": 1,
           "src": 0, "dst": c["dst"] & 0xFF, "seq": c["seq"] & 0xFF}
    eq(devs, "default_conf.ids_set_in_place.pack", bytes(hd.pack()), R.header(cd_, c["pdu_type"], cd_["dir"], c["seg_meta"], c["dlen"]))
    # ids given through the octet route of the fields (value assigned from a receive buffer that continues: the field takes its width)
    bconf = cf.PduConfig(_G.from_int(c["idw"], 0), _G.from_int(c["idw"], 0), _G.from_int(c["seqw"], 0), d.TransmissionMode(c["mode"]), d.LargeFileFlag(c["large"]),
                         d.CrcFlag(c["crc"]), d.Direction(c["dir"]), d.SegmentationControl(c["segctrl"]))
    bconf.source_entity_id.value = c["src"].to_bytes(c["idw"], "big") + b"\xde\xad"
    bconf.dest_entity_id.value = bytearray(c["dst"].to_bytes(c["idw"], "big") + b"\xbe")
    bconf.transaction_seq_num.value = c["seq"].to_bytes(c["seqw"], "big") + b"\xef\x00\x01"
    hb = H.PduHeader(d.PduType(c["pdu_type"]), d.SegmentMetadataFlag(c["seg_meta"]), c["dlen"], bconf)
    eq(devs, "ids_assigned_from_longer_octet_strings.pack", bytes(hb.pack()), want)
    eq(devs, "ids_assigned_from_longer_octet_strings.header_len", hb.header_len, hl)
    # zero placeholders of the right widths (ByteFieldEmpty(width)) put into the configuration and filled in place afterwards
    from spacepackets.util import ByteFieldEmpty

    econf = cf.PduConfig(ByteFieldEmpty(c["idw"]), ByteFieldEmpty(c["idw"]), ByteFieldEmpty(c["seqw"]), d.TransmissionMode(c["mode"]), d.LargeFileFlag(c["large"]),
                         d.CrcFlag(c["crc"]), d.Direction(c["dir"]), d.SegmentationControl(c["segctrl"]))
    he = H.PduHeader(d.PduType(c["pdu_type"]), d.SegmentMetadataFlag(c["seg_meta"]), c["dlen"], econf)
    eq(devs, "placeholder_ids.pack_zero", bytes(he.pack()), R.header({**c, "src": 0, "dst": 0, "seq": 0}, c["pdu_type"], c["dir"], c["seg_meta"], c["dlen"]))
    econf.source_entity_id.value, econf.dest_entity_id.value, econf.transaction_seq_num.value = c["src"], c["dst"], c["seq"]
    eq(devs, "placeholder_ids.pack_after_filled_in_place", bytes(he.pack()), want)
    # the id fields of a configuration re-declared to the widths of THIS header in place (they were built with other widths), the numbers
    # assigned again - also when a number is the one the field already holds
    ow = {1: 2, 2: 4, 4: 8, 8: 1}
    small = lambda v, w: v & ((1 << (8 * min(w, ow[w]))) - 1)  # noqa: E731 - a number that fits both widths
    rconf = cf.PduConfig(_G.from_int(ow[c["idw"]], small(c["src"], c["idw"])), _G.from_int(ow[c["idw"]], small(c["dst"], c["idw"])), _G.from_int(ow[c["seqw"]], small(c["seq"], c["seqw"])),
                         d.TransmissionMode(c["mode"]), d.LargeFileFlag(c["large"]), d.CrcFlag(c["crc"]), d.Direction(c["dir"]), d.SegmentationControl(c["segctrl"]))
    for fld, num, w in ((rconf.source_entity_id, small(c["src"], c["idw"]), c["idw"]), (rconf.dest_entity_id, small(c["dst"], c["idw"]), c["idw"]), (rconf.transaction_seq_num, small(c["seq"], c["seqw"]), c["seqw"])):
        fld.byte_len = w
        fld.value = num
    hr = H.PduHeader(d.PduType(c["pdu_type"]), d.SegmentMetadataFlag(c["seg_meta"]), c["dlen"], rconf)
    cr = {**c, "src": small(c["src"], c["idw"]), "dst": small(c["dst"], c["idw"]), "seq": small(c["seq"], c["seqw"])}
    eq(devs, "widths_redeclared_in_place_same_numbers.pack", bytes(hr.pack()), R.header(cr, c["pdu_type"], c["dir"], c["seg_meta"], c["dlen"]))
    eq(devs, "widths_redeclared_in_place_same_numbers.header_len", hr.header_len, hl)
    # a decoded header's id / sequence-number objects are changed in place by their owner; decoding the same octets again gives the packed values again
    u3 = H.PduHeader.unpack(want)
    u3.pdu_conf.source_entity_id.value = (c["src"] + 1) % (1 << (8 * c["idw"]))
    u3.pdu_conf.transaction_seq_num.value = (c["seq"] + 1) % (1 << (8 * c["seqw"]))
    u3.pdu_conf.dest_entity_id.value = (c["dst"] ^ 1)
    eq(devs, "hist.decoded_again_after_earlier_ids_were_changed_in_place", obs_header(H.PduHeader.unpack(want)), want_obs(c))
    # every strict prefix is refused
    for n in range(hl):
        expect_raise(devs, "prefix", H.PduHeader.unpack, want[:n], accept=(BytesTooShortError,))
    return devs


def _flags(i):
    return {"pdu_type": i & 1, "dir": (i >> 1) & 1, "mode": (i >> 2) & 1, "crc": (i >> 3) & 1, "large": (i >> 4) & 1, "segctrl": (i >> 5) & 1, "seg_meta": (i >> 6) & 1}


def enum_grid(tier, shard, nshards, rng):
    draws = 3 if tier == "quick" else 60
    idx = 0
    for i in range(128):
        for idw, seqw in itertools.product(WIDTHS, WIDTHS):
            idx += 1
            if idx % nshards != shard:
                continue
            bi, bs = boundary_values(8 * idw), boundary_values(8 * seqw)
            for k in range(draws):
                c = _flags(i)
                pick = lambda b, bits: rng.choice(b) if rng.random() < 0.5 else rng.getrandbits(bits)  # noqa: E731
                c.update(idw=idw, seqw=seqw, src=pick(bi, 8 * idw), dst=pick(bi, 8 * idw), seq=pick(bs, 8 * seqw),
                         dlen=rng.choice([0, 1, 255, 256, 0xFFFE, 0xFFFF, rng.getrandbits(16)]),
                         tail=bytes(rng.getrandbits(8) for _ in range(k % 4)).hex())
                yield c


def _nt(c):
    return c["idw"] != 1 or c["seqw"] != 1 or bool(c["segctrl"] or c["seg_meta"] or c["crc"] or c["large"] or c["dir"])


def _cls(c):
    out = [f"idw {c['idw']}", f"seqw {c['seqw']}"]
    for k in ("segctrl", "seg_meta", "crc", "large", "dir", "mode", "pdu_type"):
        if c[k]:
            out.append(f"{k}=1")
    if c["dlen"] == 0xFFFF:
        out.append("dlen max")
    return out


# ---- decoder over all first/fourth octets ------------------------------------------------------


def check_raw(c):
    """case: {"o0","o3","dlen","rest": hex of 24 octets, "tail": hex}"""
    cf, d, H, BytesTooShortError = _lib()
    from spacepackets.cfdp.defs import UnsupportedCfdpVersion

    devs = []
    raw = bytes([c["o0"]]) + c["dlen"].to_bytes(2, "big") + bytes([c["o3"]]) + bytes.fromhex(c["rest"])
    p = R.parse_header(raw)
    if p["version"] != 1:
        expect_raise(devs, "raw.version", H.PduHeader.unpack, raw, accept=(UnsupportedCfdpVersion,))
        return devs
    if p["idw"] not in WIDTHS or p["seqw"] not in WIDTHS:
        expect_raise(devs, "raw.width_code", H.PduHeader.unpack, raw, accept=(ValueError,))
        return devs
    u = H.PduHeader.unpack(raw)
    want = {
        "pdu_type": p["pdu_type"], "dir": p["dir"], "mode": p["mode"], "crc": p["crc"], "large": p["large"], "segctrl": p["segctrl"], "seg_meta": p["seg_meta"],
        "dlen": p["dlen"], "src": [p["src"], p["idw"]], "seq": [p["seq"], p["seqw"]], "dst": [p["dst"], p["idw"]], "header_len": p["header_len"],
        "packet_len": p["header_len"] + p["dlen"],
    }
    eq(devs, "raw.fields", obs_header(u), want)
    eq(devs, "raw.repack", bytes(u.pack()), raw[: p["header_len"]])
    eq(devs, "raw.header_len_from_raw", H.AbstractPduBase.header_len_from_raw(raw), p["header_len"])
    return devs


def enum_raw(tier, shard, nshards, rng):
    for o0 in range(256):
        if o0 % nshards != shard:
            continue
        for o3 in range(256):
            yield {"o0": o0, "o3": o3, "dlen": rng.choice([0, 1, 0x1234, 0xFFFF, rng.getrandbits(16)]), "rest": bytes(rng.getrandbits(8) for _ in range(24)).hex()}


def _nt_raw(c):
    return (c["o0"] >> 5) == 1


def _cls_raw(c):
    p = R.parse_header(bytes([c["o0"], 0, 0, c["o3"]]) + bytes(24))
    if p["version"] != 1:
        return ["version != 1"]
    if p["idw"] not in WIDTHS or p["seqw"] not in WIDTHS:
        return ["bad width code"]
    return ["decodable"]


# ---- refusals ----------------------------------------------------------------------------------


def st_refuse():
    base = st.fixed_dictionaries(
        {"pdu_type": st.integers(0, 1), "dir": st.integers(0, 1), "mode": st.integers(0, 1), "crc": st.integers(0, 1), "large": st.integers(0, 1),
         "segctrl": st.integers(0, 1), "seg_meta": st.integers(0, 1), "dlen": uint(16), "idw": st.sampled_from(WIDTHS), "seqw": st.sampled_from(WIDTHS)}
    )
    return st.one_of(
        st.tuples(base, st.sampled_from(WIDTHS)).filter(lambda t: t[0]["idw"] != t[1]).map(lambda t: {"k": "id_widths", "base": t[0], "dstw": t[1]}),
        st.tuples(base, st.one_of(st.sampled_from([65536, 65537, 1 << 17, 1 << 32]), st.integers(65536, 1 << 40))).map(lambda t: {"k": "dlen", "base": t[0], "bad": t[1]}),
    )


def check_refuse(c):
    cf, d, H, _ = _lib()
    devs = []
    b = dict(c["base"])
    b.update(src=1, dst=1, seq=1)
    if c["k"] == "id_widths":
        from spacepackets.util import ByteFieldGenerator

        def mk():
            conf = build_conf(b)
            conf.dest_entity_id = ByteFieldGenerator.from_int(c["dstw"], 1)
            return H.PduHeader(d.PduType(b["pdu_type"]), d.SegmentMetadataFlag(b["seg_meta"]), b["dlen"], conf).pack()

        expect_raise(devs, "id_widths.ctor", mk)
        h = build_header(b)
        before = bytes(h.pack())
        expect_raise(devs, "id_widths.set_entity_ids", h.set_entity_ids, ByteFieldGenerator.from_int(b["idw"], 2), ByteFieldGenerator.from_int(c["dstw"], 3))
        # a refused update leaves the header what it was
        eq(devs, "id_widths.pack_after_refused_update", bytes(h.pack()), before)
        eq(devs, "id_widths.header_len_after_refused_update", h.header_len, len(before))
        eq(devs, "id_widths.fields_after_refused_update", obs_header(h), want_obs(b))
    else:
        def mk2():
            bb = dict(b)
            bb["dlen"] = c["bad"]
            return build_header(bb).pack()

        expect_raise(devs, "dlen.ctor", mk2)
        h = build_header(b)

        def setlen():
            h.pdu_data_field_len = c["bad"]
            return h.pack()

        before = bytes(h.pack())
        expect_raise(devs, "dlen.setter", setlen)
        eq(devs, "dlen.pack_after_refused_update", bytes(h.pack()), before)
        eq(devs, "dlen.packet_len_after_refused_update", h.packet_len, len(before) + b["dlen"])
    return devs


CLAUSES = [
    Clause(
        id="C05.grid.exhaustive",
        doc="all 2^7 flag combinations x 16 width combinations, drawn ids/seq/length: pack == reference, lengths, unpack, prefixes refused",
        kind="enum",
        enum=enum_grid,
        check=check_header,
        nontrivial=_nt,
        classify=_cls,
        required=["idw 8", "seqw 8", "idw 4", "segctrl=1", "seg_meta=1", "crc=1", "large=1", "dir=1", "dlen max"],
        shards={"quick": 8, "thorough": 16},
        exhaustive_note="2048 header configurations (2^7 flags x 16 (id width, seq width) pairs), each with several drawn value sets",
    ),
    Clause(
        id="C05.raw.exhaustive",
        doc="all 2^16 (octet 0, octet 3) pairs through the decoder: version / width-code refusals, otherwise fields == reference parse",
        kind="enum",
        enum=enum_raw,
        check=check_raw,
        nontrivial=_nt_raw,
        classify=_cls_raw,
        required=["version != 1", "bad width code", "decodable"],
        shards={"quick": 8, "thorough": 16},
        exhaustive_note="all 65536 combinations of the flag octet and the width/segmentation octet",
    ),
    Clause(
        id="C05.refuse",
        doc="source/destination ids of different widths and data-field lengths above 65535 are refused with ValueError",
        strategy=st_refuse,
        check=check_refuse,
        classify=lambda c: [c["k"]],
        required=["id_widths", "dlen"],
        n={"quick": 400, "thorough": 4000},
    ),
]

from ..names_check import names_clause  # noqa: E402

if names_clause("C05") is not None:
    CLAUSES.append(names_clause("C05"))

PROPERTY = Property(
    id="C05",
    level="exploration",
    rule=(
        "flag x width grid enumerated completely (2048 configurations) with boundary-weighted ids / sequence numbers / lengths; decoder "
        "fed all 2^16 (octet0, octet3) pairs; oracle = reference header codec from 727.0-B-5 5.1; non-trivial = width != 1 or any of "
        "segctrl / seg-metadata / crc / large / direction set"
    ),
    clauses=CLAUSES,
    assumptions=["vf/ref/cfdp.py header()/parse_header() is the trusted statement of the header layout (pinned by the ACK vector of tests/cfdp/pdus/test_ack_pdu.py)"],
)
