"""C08 - CFDP TLV and LV items encode exactly, round-trip, and are type-safe."""
from __future__ import annotations

from hypothesis import strategies as st

from .. import cfdp_model as M
from ..core import Clause, Dev, eq, expect_raise, pack_fresh, scribble, true
from ..prop import Property
from ..ref import cfdp as R
from ..strategies import hexblob, name, uint

TLV_TYPES = (0, 1, 2, 4, 5, 6)
CONCRETE = ("entity", "flow", "fault", "fsreq", "fsresp", "msg")
TYPE_OF = {"fsreq": 0, "fsresp": 1, "msg": 2, "fault": 4, "flow": 5, "entity": 6}


def _T():
    from spacepackets.cfdp import tlv as T
    from spacepackets.cfdp.exceptions import TlvTypeMissmatch
    from spacepackets.cfdp.lv import CfdpLv

    return T, CfdpLv, TlvTypeMissmatch


def st_value():
    return st.one_of(hexblob(255), hexblob(24), st.sampled_from([0, 1, 254, 255]).flatmap(lambda n: st.integers(0, 255).map(lambda f: (bytes([f]) * n).hex())))


# ---- generic TLV / LV ---------------------------------------------------------------------------


def check_generic(c):
    T, CfdpLv, _ = _T()
    devs = []
    v = bytes.fromhex(c["v"])
    tail = bytes.fromhex(c["tail"])
    t = c["type"]
    want = R.tlv(t, v)
    x = T.CfdpTlv(T.TlvType(t), v)
    pack_fresh(devs, "tlv.pack", x.pack, want)
    eq(devs, "tlv.packet_len", x.packet_len, len(v) + 2)
    eq(devs, "tlv.value", bytes(x.value), v)
    for tag, buf in (("exact", want), ("tail", want + tail), ("bytearray", bytearray(want + tail))):
        y = T.CfdpTlv.unpack(buf)
        eq(devs, f"tlv.dec.type.{tag}", int(y.tlv_type), t)
        eq(devs, f"tlv.dec.value.{tag}", bytes(y.value), v)
        eq(devs, f"tlv.dec.packet_len.{tag}", y.packet_len, len(v) + 2)
        eq(devs, f"tlv.dec.repack.{tag}", bytes(y.pack()), want)
        true(devs, f"tlv.dec.eq.{tag}", y == x, "decoded TLV != original")
    wl = R.lv(v)
    lv = CfdpLv(v)
    pack_fresh(devs, "lv.pack", lv.pack, wl)
    # caller-owned mutable value buffers, reused after construction / after decoding
    cv = bytearray(v)
    x2, lv2 = T.CfdpTlv(T.TlvType(t), cv), CfdpLv(bytearray(v))
    eq(devs, "tlv.pack_bytearray_value", bytes(x2.pack()), want)
    eq(devs, "tlv.pack_bytearray_value_again", bytes(x2.pack()), want)
    eq(devs, "tlv.caller_value_untouched", bytes(cv), v)
    eq(devs, "lv.pack_bytearray_value", bytes(lv2.pack()), wl)
    eq(devs, "lv.pack_bytearray_value_again", bytes(lv2.pack()), wl)
    buf = bytearray(want + tail)
    y = T.CfdpTlv.unpack(buf)
    scribble(buf)
    eq(devs, "tlv.dec.value_after_caller_reused_buffer", bytes(y.value), v)
    buf = bytearray(wl + tail)
    y = CfdpLv.unpack(buf)
    scribble(buf)
    eq(devs, "lv.dec.value_after_caller_reused_buffer", bytes(y.value), v)
    # the same for LVs made from text (from_str / from_path): the first result is changed by its owner, the same text asked for again
    try:
        text = v.decode("utf-8")
    except UnicodeDecodeError:
        text = None
    if text is not None:
        import pathlib

        for route, mk_lv in (("from_str", lambda: CfdpLv.from_str(text)), ("from_path", lambda: CfdpLv.from_path(pathlib.PurePosixPath(text)))):
            w_route = R.lv(text.encode("utf-8")) if route == "from_str" else R.lv(str(pathlib.PurePosixPath(text)).encode("utf-8"))
            if len(w_route) > 256:
                continue
            first = mk_lv()
            eq(devs, f"lv.{route}.pack", bytes(first.pack()), w_route)
            first.value = b"changed"
            first.value_len = 7
            eq(devs, f"lv.{route}.again_after_earlier_result_was_modified", bytes(mk_lv().pack()), w_route)
    # a decoded LV is filled in by its owner afterwards (plain attributes); decoding the same octets again gives the original again
    y.value = b"changed"
    y.value_len = 7
    y2 = CfdpLv.unpack(wl + tail)
    eq(devs, "lv.dec.again_after_earlier_result_was_modified", (bytes(y2.value), y2.value_len, bytes(y2.pack())), (v, len(v), wl))
    eq(devs, "lv.packet_len", lv.packet_len, len(v) + 1)
    for tag, buf in (("exact", wl), ("tail", wl + tail), ("bytearray", bytearray(wl + tail))):
        y = CfdpLv.unpack(buf)
        eq(devs, f"lv.dec.value.{tag}", bytes(y.value), v)
        eq(devs, f"lv.dec.packet_len.{tag}", y.packet_len, len(v) + 1)
        eq(devs, f"lv.dec.value_len.{tag}", y.value_len, len(v))
        eq(devs, f"lv.dec.repack.{tag}", bytes(y.pack()), wl)
        true(devs, f"lv.dec.eq.{tag}", y == lv, "decoded LV != original")
    return devs


def st_generic():
    return st.fixed_dictionaries({"type": st.sampled_from(TLV_TYPES), "v": st_value(), "tail": hexblob(12)})


def st_toolong():
    return st.fixed_dictionaries({"type": st.sampled_from(TLV_TYPES), "n": st.one_of(st.sampled_from([256, 257, 300, 511, 512, 65535]), st.integers(256, 2000)), "fill": st.integers(0, 255)})


def check_toolong(c):
    T, CfdpLv, _ = _T()
    devs = []
    v = bytes([c["fill"]]) * c["n"]
    expect_raise(devs, "toolong.tlv", T.CfdpTlv, T.TlvType(c["type"]), v)
    expect_raise(devs, "toolong.lv", CfdpLv, v)
    if c["type"] == 5:
        expect_raise(devs, "toolong.flow", T.FlowLabelTlv, v)
    if c["type"] == 2:
        expect_raise(devs, "toolong.msg", T.MessageToUserTlv, v)
    if c["type"] == 1:
        # a filestore response whose parts fit one by one but not together (names <= 255 octets, names + message > 255) is refused when
        # packed; once the caller supplies a message that fits, the same object packs to the reference layout
        a = 100 + c["fill"] % 100
        msg_long = bytes([c["fill"]]) * (255 - a)
        x = T.FileStoreResponseTlv(T.FilestoreActionCode(0), T.FilestoreResponseStatusCode(0), "n" * a, "", CfdpLv(msg_long))
        expect_raise(devs, "toolong.fsresp_sum_of_parts", x.pack)
        expect_raise(devs, "toolong.fsresp_sum_of_parts.again", lambda: x.value)
        msg_ok = msg_long[: 255 - a - 3 - (c["n"] % 7)]
        x.filestore_msg = CfdpLv(msg_ok)
        d = {"t": "fsresp", "action": 0, "status": 0, "n1": "n" * a, "n2": "", "msg": msg_ok.hex()}
        eq(devs, "toolong.fsresp_pack_after_refusal_and_shorter_message", bytes(x.pack()), R.tlv_bytes(d))
        eq(devs, "toolong.fsresp_packet_len_after_refusal", x.packet_len, len(R.tlv_bytes(d)))
    return devs


# ---- concrete TLVs -------------------------------------------------------------------------------


def st_concrete():
    big_name = st.one_of(name(20), name(120), name(120, min_chars=20))
    fsreq = st.fixed_dictionaries({"t": st.just("fsreq"), "action": st.sampled_from(M.ACTIONS), "n1": big_name, "n2": big_name})
    fsresp = st.sampled_from(M.ACTIONS).flatmap(
        lambda a: st.fixed_dictionaries({"t": st.just("fsresp"), "action": st.just(a), "status": st.sampled_from(M.valid_statuses(a)), "n1": big_name, "n2": big_name, "msg": hexblob(9)})
    )
    return st.one_of(M.st_entity_tlv(), M.st_flow_tlv(255), M.st_fault_tlv(), fsreq, fsresp, M.st_msg_tlv(255))


def concrete_class(T, kind):
    return {"entity": T.EntityIdTlv, "flow": T.FlowLabelTlv, "fault": T.FaultHandlerOverrideTlv, "fsreq": T.FileStoreRequestTlv, "fsresp": T.FileStoreResponseTlv, "msg": T.MessageToUserTlv}[kind]


def holder_call(T, holder, kind):
    return {"entity": holder.to_entity_id, "flow": holder.to_flow_label, "fault": holder.to_fault_handler_override, "fsreq": holder.to_fs_request, "fsresp": holder.to_fs_response, "msg": holder.to_msg_to_user}[kind]


def obs_concrete(x, kind) -> dict:
    o = M.obs_tlv(x)
    if kind == "fault":
        o.update(cc=int(x.condition_code), handler=int(x.handler_code))
    elif kind == "fsreq":
        o.update(action=int(x.action_code), n1=x.first_file_name, n1_octets=x.first_file_name.encode().hex(),
                 n2=x.second_file_name if int(x.action_code) in R.SECOND_NAME_ACTIONS else "")
    elif kind == "fsresp":
        o.update(action=int(x.action_code), status=int(x.status_code) & 0x0F, status_full=int(x.status_code), n1=x.first_file_name, n1_octets=x.first_file_name.encode().hex(),
                 n2=x.second_file_name if int(x.action_code) in R.SECOND_NAME_ACTIONS else "", msg=bytes(x.filestore_msg.value).hex())
    return o


def want_concrete(d) -> dict:
    o = M.want_tlv_obs(d)
    k = d["t"]
    if k == "fault":
        o.update(cc=d["cc"], handler=d["handler"])
    elif k == "fsreq":
        o.update(action=d["action"], n1=d["n1"], n1_octets=d["n1"].encode().hex(), n2=d["n2"] if d["action"] in R.SECOND_NAME_ACTIONS else "")
    elif k == "fsresp":
        o.update(action=d["action"], status=d["status"], status_full=(d["action"] << 4) | d["status"], n1=d["n1"], n1_octets=d["n1"].encode().hex(),
                 n2=d["n2"] if d["action"] in R.SECOND_NAME_ACTIONS else "", msg=d["msg"])
    return o


def check_concrete(d):
    T, CfdpLv, _ = _T()
    devs = []
    kind = d["t"]
    cls = concrete_class(T, kind)
    want = R.tlv_bytes(d)
    wo = want_concrete(d)
    x = M.build_tlv(d)
    pack_fresh(devs, "enc.pack", x.pack, want)
    eq(devs, "enc.packet_len", x.packet_len, len(want))
    if kind == "fsresp" and d["status"] in (0, 15):
        # the generic status members (SUCCESS = 0b0000, NOT_PERFORMED = 0b1111) combined with any action code
        xg = T.FileStoreResponseTlv(T.FilestoreActionCode(d["action"]), T.FilestoreResponseStatusCode(d["status"]), d["n1"], d["n2"], CfdpLv(bytes.fromhex(d["msg"])))
        eq(devs, "enc.generic_status_member.pack", bytes(xg.pack()), want)
        eq(devs, "enc.generic_status_member.packet_len", xg.packet_len, len(want))
    if kind in ("fault", "fsreq", "fsresp"):
        xi = M.build_tlv(d, plain_ints=True)
        eq(devs, "enc.plain_int_parameters.pack", bytes(xi.pack()), want)
        eq(devs, "enc.plain_int_parameters.packet_len", xi.packet_len, len(want))
        eq(devs, "enc.plain_int_parameters.obs", obs_concrete(xi, kind), wo)
    eq(devs, "enc.obs", obs_concrete(x, kind), wo)
    routes = [
        ("unpack", lambda: cls.unpack(want)),
        ("unpack_tail", lambda: cls.unpack(want + b"\x05\x01\xaa")),
        ("from_tlv", lambda: cls.from_tlv(T.CfdpTlv.unpack(want))),
        ("holder_generic", lambda: holder_call(T, T.TlvHolder(T.CfdpTlv.unpack(want)), kind)()),
        ("holder_concrete", lambda: holder_call(T, T.TlvHolder(x), kind)()),
        # a generic TLV whose type was given as the plain integer read from the octets
        ("from_tlv_int_type", lambda: cls.from_tlv(T.CfdpTlv(want[0], want[2:]))),
        ("holder_generic_int_type", lambda: holder_call(T, T.TlvHolder(T.CfdpTlv(want[0], want[2:])), kind)()),
    ]
    for tag, fn in routes:
        y = fn()
        true(devs, f"dec.class.{tag}", isinstance(y, cls), f"got {type(y).__name__}")
        eq(devs, f"dec.obs.{tag}", obs_concrete(y, kind), wo)
        true(devs, f"dec.eq.{tag}", bool(y == x), "decoded TLV != original")
    if kind == "fsresp":
        # the filestore message LV is a caller-owned object that may have been packed (and its buffer reused) before
        msg = CfdpLv(bytes.fromhex(d["msg"]))
        scribble(msg.pack())
        x3 = T.FileStoreResponseTlv(T.FilestoreActionCode(d["action"]), T.FilestoreResponseStatusCode((d["action"] << 4) | d["status"]), d["n1"], d["n2"], msg)
        eq(devs, "enc.pack_with_previously_packed_msg_lv", bytes(x3.pack()), want)
        eq(devs, "enc.packet_len_with_previously_packed_msg_lv", x3.packet_len, len(want))
    return devs


def _nt_concrete(d):
    k = d["t"]
    if k in ("fsreq", "fsresp"):
        return any(ord(ch) > 127 for ch in d["n1"] + d["n2"]) or d["action"] in R.SECOND_NAME_ACTIONS or len(d["n1"]) == 0
    if k in ("flow", "msg"):
        return len(d["v"]) // 2 in (0, 255) or len(d["v"]) > 32
    if k == "entity":
        return len(d["id"]) > 2
    return True


def _cls_concrete(d):
    out = [d["t"]]
    if d["t"] in ("fsreq", "fsresp"):
        if any(ord(ch) > 127 for ch in d["n1"] + d["n2"]):
            out.append("non-ascii name")
        if d["action"] in R.SECOND_NAME_ACTIONS:
            out.append("second name")
        out.append(f"action {d['action']}")
    return out


# ---- status-code helpers over all 9 x 16 pairs ----------------------------------------------------


def enum_status(tier, shard, nshards, rng):
    for a in range(9):
        for s in range(16):
            yield {"action": a, "status": s}


def check_status(c):
    from spacepackets.cfdp import tlv as T
    from spacepackets.cfdp.tlv.defs import FilestoreResponseStatusCode as S

    devs = []
    a, s = c["action"], c["status"]
    from ..ref.names import FILESTORE_STATUS

    got = T.map_int_status_code_to_enum(T.FilestoreActionCode(a), s)
    if s in FILESTORE_STATUS[a]:  # the pairs table 5-18 of the standard defines (not the library's own member list)
        eq(devs, "status.to_enum", int(got), (a << 4) | s)
        e = S((a << 4) | s)
        eq(devs, "status.to_int", T.map_enum_status_code_to_int(e), s)
        ac, st4 = T.map_enum_status_code_to_action_status_code(e)
        eq(devs, "status.to_action_status", (int(ac), int(st4)), (a, s))
    elif ((a << 4) | s) not in {int(m) for m in S.__members__.values()}:
        # a pair the standard does not define: the documented answer is INVALID. (Pairs that collide with one of the library's
        # action-independent helper members - SUCCESS, NOT_PERFORMED, APPEND_FROM_DATA_FILE_NOT_EXISTS = 2 - are left alone:
        # nothing states what they map to.)
        eq(devs, "status.invalid", int(got), int(S.INVALID))
    return devs


# ---- foreign types ---------------------------------------------------------------------------------


def st_foreign():
    def for_target(kind):
        sample = {"entity": M.st_entity_tlv(), "flow": M.st_flow_tlv(16), "fault": M.st_fault_tlv(), "fsreq": M.st_fsreq_tlv(), "fsresp": M.st_fsresp_tlv(), "msg": M.st_msg_tlv(16)}[kind]
        others = [t for t in TLV_TYPES if t != TYPE_OF[kind]]
        return st.fixed_dictionaries({"target": st.just(kind), "layout": sample, "foreign": st.sampled_from(others)})

    return st.sampled_from(CONCRETE).flatmap(for_target)


def check_foreign(c):
    T, CfdpLv, Mismatch = _T()
    devs = []
    kind = c["target"]
    cls = concrete_class(T, kind)
    _, value = R.tlv_value(c["layout"])
    raw = R.tlv(c["foreign"], value)  # value laid out as the target expects; only the type differs
    generic = T.CfdpTlv(T.TlvType(c["foreign"]), value)
    tag = f"{kind}"
    expect_raise(devs, f"foreign.unpack.{tag}", cls.unpack, raw, accept=(Mismatch,))
    expect_raise(devs, f"foreign.from_tlv.{tag}", cls.from_tlv, generic, accept=(Mismatch,))
    expect_raise(devs, f"foreign.holder_generic.{tag}", holder_call(T, T.TlvHolder(generic), kind), accept=(Mismatch,))
    # a concrete object of another kind in the holder
    other_kind = next(k for k in CONCRETE if TYPE_OF[k] == c["foreign"])
    sample = {"entity": {"t": "entity", "id": "01"}, "flow": {"t": "flow", "v": "aa"}, "fault": {"t": "fault", "cc": 1, "handler": 1},
              "fsreq": {"t": "fsreq", "action": 0, "n1": "a", "n2": ""}, "fsresp": {"t": "fsresp", "action": 0, "status": 0, "n1": "a", "n2": "", "msg": ""},
              "msg": {"t": "msg", "v": "00"}}[other_kind]
    other = M.build_tlv(sample)
    expect_raise(devs, f"foreign.holder_concrete.{tag}", holder_call(T, T.TlvHolder(other), kind), accept=(TypeError, Mismatch))
    # a generic TLV whose type octet is not one of the six assigned codes (the generic class carries any octet): still a type mismatch
    for code in (3, 7, 8 + c["foreign"], 0x80 | TYPE_OF[kind], 255):
        g2 = T.CfdpTlv(code, value)
        expect_raise(devs, f"foreign.unassigned_type.from_tlv.{tag}", cls.from_tlv, g2, accept=(Mismatch,))
        expect_raise(devs, f"foreign.unassigned_type.holder.{tag}", holder_call(T, T.TlvHolder(g2), kind), accept=(Mismatch,))
    return devs


def enum_locale(tier, shard, nshards, rng):
    if shard == 0:
        yield {"names": ["müll.txt", "测试.bin", "e\u0301", "plain.txt", "𝄞"]}


def check_locale(c):
    """File names are UTF-8 on the wire whatever the process locale / filesystem encoding is: a child interpreter started under an
    ASCII locale with UTF-8 mode switched off packs filestore TLVs and a Metadata PDU; the octets must equal the reference."""
    import json
    import subprocess
    import sys

    from ..core import REPO

    prog = (
        "import sys, json; sys.path.insert(0, sys.argv[1])\n"
        "from spacepackets.cfdp import tlv as T\n"
        "from spacepackets.cfdp.lv import CfdpLv\n"
        "names = json.loads(sys.argv[2]); out = {}\n"
        "for n in names:\n"
        "    try:\n"
        "        out[n] = [bytes(T.FileStoreRequestTlv(T.FilestoreActionCode(2), n, n).pack()).hex(),\n"
        "                  bytes(T.FileStoreResponseTlv(T.FilestoreActionCode(0), T.FilestoreResponseStatusCode(0), n, '', CfdpLv(b'')).pack()).hex(),\n"
        "                  T.FileStoreRequestTlv(T.FilestoreActionCode(2), n, n).packet_len, bytes(CfdpLv.from_str(n).pack()).hex()]\n"
        "    except Exception as e:\n"
        "        out[n] = ['EXC', type(e).__name__, str(e)[:80]]\n"
        "sys.stdout.buffer.write(json.dumps(out).encode('ascii'))\n"
    )
    env = {"PATH": "/usr/bin:/bin", "LC_ALL": "C", "LANG": "C", "PYTHONUTF8": "0", "PYTHONCOERCECLOCALE": "0", "PYTHONDONTWRITEBYTECODE": "1", "PYTHONHASHSEED": "0"}
    r = subprocess.run([sys.executable, "-B", "-c", prog, REPO, json.dumps(c["names"])], env=env, capture_output=True, timeout=120)
    if r.returncode != 0:
        raise RuntimeError("child interpreter failed: " + r.stderr.decode("ascii", "replace")[-400:])
    got = json.loads(r.stdout.decode("ascii"))
    devs = []
    for n in c["names"]:
        req = R.tlv_bytes({"t": "fsreq", "action": 2, "n1": n, "n2": n})
        resp = R.tlv_bytes({"t": "fsresp", "action": 0, "status": 0, "n1": n, "n2": "", "msg": ""})
        want = [req.hex(), resp.hex(), len(req), R.lv(n.encode("utf-8")).hex()]
        eq(devs, "ascii_locale.octets", got.get(n), want, f"name {n!r} packed under LC_ALL=C, PYTHONUTF8=0")
    return devs, len(c["names"])


CLAUSES = [
    Clause(
        id="C08.generic",
        doc="CfdpTlv / CfdpLv: pack == type|length|value / length|value; decode consumes exactly length+2 (+1) octets whatever follows",
        strategy=st_generic,
        check=check_generic,
        nontrivial=lambda c: len(c["v"]) // 2 in (0, 255) or len(c["v"]) > 32 or bool(c["tail"]),
        classify=lambda c: [f"type {c['type']}"] + (["empty value"] if not c["v"] else []) + (["255 octets"] if len(c["v"]) == 510 else []) + (["tail"] if c["tail"] else []),
        required=["empty value", "255 octets", "tail"] + [f"type {t}" for t in TLV_TYPES],
        n={"quick": 1200, "thorough": 10000},
    ),
    Clause(
        id="C08.toolong",
        doc="values longer than 255 octets are refused with ValueError",
        strategy=st_toolong,
        check=check_toolong,
        n={"quick": 200, "thorough": 1000},
        shards={"quick": 1, "thorough": 2},
    ),
    Clause(
        id="C08.concrete",
        doc="six concrete TLVs: pack == layout of 727.0-B-5 5.4, packet_len, decode via unpack / from_tlv / holder returns the same parameters",
        strategy=st_concrete,
        check=check_concrete,
        nontrivial=_nt_concrete,
        classify=_cls_concrete,
        required=list(CONCRETE) + ["non-ascii name", "second name"] + [f"action {a}" for a in range(9)],
        n={"quick": 1500, "thorough": 12000},
    ),
    Clause(
        id="C08.status_map.exhaustive",
        doc="the three status-code mapping helpers over all 9 x 16 (action, status) pairs",
        kind="enum",
        enum=enum_status,
        check=check_status,
        exhaustive_note="all 144 (action code, 4-bit status) pairs",
    ),
    Clause(
        id="C08.foreign",
        doc="decoding / converting a TLV of any other type through a concrete class raises the type-mismatch error",
        strategy=st_foreign,
        check=check_foreign,
        classify=lambda c: [f"target {c['target']}", f"foreign {c['foreign']}"],
        required=[f"target {k}" for k in CONCRETE] + [f"foreign {t}" for t in TLV_TYPES],
        n={"quick": 1000, "thorough": 6000},
    ),
]

def st_surrogate_names():
    sur = st.one_of(st.integers(0xDC80, 0xDCFF), st.integers(0xD800, 0xDFFF)).map(chr)  # the escapes os.fsdecode() produces first
    part = st.text(alphabet=st.characters(min_codepoint=0x20, max_codepoint=0x7E), max_size=6)
    name = st.tuples(part, sur, part).map("".join)
    return st.fixed_dictionaries({"kind": st.sampled_from(["fsreq", "fsresp"]), "action": st.sampled_from(M.ACTIONS), "n1": name, "n2": st.one_of(st.just(""), name), "which": st.integers(0, 1)})


def check_surrogate_names(c):
    """A name that has no UTF-8 encoding (lone surrogate, e.g. what os.fsdecode() yields for undecodable octets) is refused when the
    TLV is packed - or, if an implementation chooses to encode it, it decodes back to the same name.  Never a TLV that cannot be read back."""
    T, CfdpLv, _ = _T()
    devs = []
    n1, n2 = (c["n1"], "plain.txt") if c["which"] == 0 else ("plain.txt", c["n1"])
    if c["action"] not in (2, 3, 4):
        n1, n2 = c["n1"], ""
    mk = (lambda: T.FileStoreRequestTlv(T.FilestoreActionCode(c["action"]), n1, n2)) if c["kind"] == "fsreq" else \
        (lambda: T.FileStoreResponseTlv(T.FilestoreActionCode(c["action"]), T.FilestoreResponseStatusCode(c["action"] << 4), n1, n2, CfdpLv(b"")))
    try:
        raw = bytes(mk().pack())
    except ValueError:  # UnicodeEncodeError is a ValueError
        return devs
    cls = T.FileStoreRequestTlv if c["kind"] == "fsreq" else T.FileStoreResponseTlv
    try:
        y = cls.unpack(raw)
        eq(devs, "unencodable_name.packed_but_decodes_differently", (y.first_file_name, y.second_file_name), (n1, n2))
    except Exception as e:  # noqa: BLE001 - the library packed something it cannot read back
        devs.append(Dev("unencodable_name.packed_but_not_decodable", f"pack() produced {raw.hex()} for names {n1!r}, {n2!r}; decoding it raises {type(e).__name__}"))
    return devs


CLAUSES.append(Clause(
    id="C08.unencodable_names",
    doc="filestore request / response names containing a lone surrogate (no UTF-8 encoding exists): packing is refused, or what is packed decodes back to the same names",
    strategy=st_surrogate_names, check=check_surrogate_names, classify=lambda c: [c["kind"], "low surrogate dc80..dcff" if any(0xDC80 <= ord(ch) <= 0xDCFF for ch in c["n1"]) else "other surrogate"],
    required=["fsreq", "fsresp", "low surrogate dc80..dcff", "other surrogate"], n={"quick": 200, "thorough": 2000},
))

CLAUSES.append(Clause(
    id="C08.locale",
    doc="file names are encoded as UTF-8 whatever the process locale is: filestore TLVs and LVs packed in a child interpreter under LC_ALL=C with UTF-8 mode off equal the reference octets",
    kind="enum", enum=enum_locale, check=check_locale, classify=lambda c: ["ascii locale"], required=["ascii locale"], shards={"quick": 1, "thorough": 1}, weight_by_evals=True,
    rule="each name is one evaluation",
))

from ..names_check import names_clause  # noqa: E402

if names_clause("C08") is not None:
    CLAUSES.append(names_clause("C08"))

PROPERTY = Property(
    id="C08",
    level="exploration",
    rule=(
        "generic TLV/LV: all six types x values of 0..255 octets (0, 255 and long values over-weighted) with arbitrary continuation octets; concrete TLVs: every action code x its "
        "status codes x names (ASCII, Latin-1, 3- and 4-octet code points, up to 120 octets) x filestore message; foreign matrix: 6 classes x 5 foreign types x 4 routes with the "
        "value laid out as the target expects; oracle = reference TLV layouts; non-trivial = non-ASCII name, second name, empty or 255-octet value, any foreign-type case"
    ),
    clauses=CLAUSES,
    assumptions=[
        "vf/ref/cfdp.py tlv_value() is the trusted statement of 727.0-B-5 5.4 (pinned by the filestore-response vectors of tests/cfdp/pdus/test_finished_pdu.py)",
        "status codes are generated from the library's own enum membership (domain), the nibble arithmetic is checked by the reference",
        "entity-id equality is numeric by documented design; TlvHolder with a concrete TLV of another kind documents TypeError",
    ],
)
