"""C07 - CFDP File Data PDU carries offset, segment metadata and file data exactly."""
from __future__ import annotations

from hypothesis import strategies as st

from .. import cfdp_model as M
from ..core import Clause, Dev, eq, expect_raise, true
from ..prop import Property
from ..ref import cfdp as R
from ..strategies import fillblob, hexblob


def st_filedata():
    def for_conf(c):
        base = M._st_pdu_for("filedata", c)
        # a few large segments described compactly
        overhead = R.header_len(c) + (8 if c["large"] else 4) + (2 if c["crc"] else 0)
        big = st.sampled_from([255, 256, 4096, 65535 - overhead - 64, 65535 - overhead + R.header_len(c)]).flatmap(fillblob)
        return st.one_of(base, base, base, st.tuples(base, big).map(lambda t: {**t[0], "data": t[1], "meta": None}))

    return M.st_conf(segctrl=True).flatmap(for_conf)


def check_filedata(p):
    devs = []
    data = M.file_data_of(p)
    want = M.ref_pdu(p)
    wo = M.want_pdu_obs(p, want)
    x = M.build_pdu(p)
    eq(devs, "enc.fields", M.obs_pdu(x, "filedata"), wo)
    packed = x.pack()
    eq(devs, "enc.bytes", bytes(packed), want)
    eq(devs, "enc.len_vs_packet_len", len(packed), x.packet_len)
    hl = R.header_len(p["conf"])
    eq(devs, "enc.data_field_len", int.from_bytes(packed[1:3], "big"), len(packed) - hl)
    eq(devs, "enc.pdu_data_field_len", x.pdu_data_field_len, len(packed) - hl)
    cls = M.pdu_class("filedata")
    for tag, buf in (("bytes", bytes(want)), ("bytearray", bytearray(want))):
        y = cls.unpack(buf)
        eq(devs, f"dec.file_data_len.{tag}", len(y.file_data), len(data))
        eq(devs, f"dec.fields.{tag}", M.obs_pdu(y, "filedata"), wo)
        true(devs, f"dec.eq.{tag}", bool(y == x) and bool(x == y), "unpack(pack(x)) != x")
        eq(devs, f"dec.repack.{tag}", bytes(y.pack()), want)
        eq(devs, f"dec.packet_len.{tag}", y.packet_len, len(want))
        eq(devs, f"dec.pdu_data_field_len.{tag}", y.pdu_data_field_len, len(want) - hl)
    if len(data) <= 4096:
        devs.extend(M.pdu_histories(p, want, wo, cls.unpack))
        devs.extend(_filedata_histories(p, data, want))
    return devs


def _filedata_histories(p, data, want):
    """Caller-owned mutable file data / metadata buffers and a metadata object that is updated in place and assigned again."""
    from spacepackets.cfdp import pdu as P
    from spacepackets.cfdp.pdu.file_data import RecordContinuationState, SegmentMetadata

    from ..core import scribble

    devs = []
    c_data = bytearray(data)
    meta = None
    c_meta = None
    if p.get("meta") is not None:
        c_meta = bytearray(bytes.fromhex(p["meta"]["data"]))
        meta = SegmentMetadata(RecordContinuationState(p["meta"]["state"]), c_meta)
    x = P.FileDataPdu(M.build_conf(p["conf"]), P.FileDataParams(c_data, p["offset"], meta))
    eq(devs, "hist.bytearray_inputs.pack", bytes(x.pack()), want)
    eq(devs, "hist.bytearray_inputs.pack_again", bytes(x.pack()), want)
    eq(devs, "hist.bytearray_inputs.caller_file_data_untouched", bytes(c_data), data)
    if c_meta is not None:
        eq(devs, "hist.bytearray_inputs.caller_metadata_untouched", bytes(c_meta), bytes.fromhex(p["meta"]["data"]))
        # the metadata object the PDU holds is updated in place by its owner and assigned again through the documented setter
        held = x.segment_metadata
        new_md = (bytes.fromhex(p["meta"]["data"]) + b"\x77\x66")[:63]
        held.metadata = new_md
        x.segment_metadata = held
        q = {**p, "meta": {"state": p["meta"]["state"], "data": new_md.hex()}}
        want2 = M.ref_pdu(q)
        eq(devs, "hist.metadata_updated_in_place_then_assigned.pack", bytes(x.pack()), want2)
        eq(devs, "hist.metadata_updated_in_place_then_assigned.packet_len", x.packet_len, len(want2))
    return devs


def _cls(p):
    out = M.pdu_classes(p)
    if p["conf"]["segctrl"]:
        out.append("segctrl=1")
    if isinstance(p["data"], dict):
        out.append("large segment")
    if p["conf"]["crc"] and p.get("meta") is not None:
        out.append("crc+metadata")
    if p["conf"]["crc"] and p["data"] == "":
        out.append("crc+empty")
    return out


# ---- metadata > 63 refused ---------------------------------------------------------------------


def st_meta_too_long():
    return st.fixed_dictionaries(
        {"conf": M.st_conf(segctrl=True), "state": st.integers(0, 3), "n": st.sampled_from([64, 65, 100, 127, 128, 255, 256]), "fill": st.integers(0, 255), "offset": st.integers(0, 1000), "data": hexblob(8)}
    )


def check_meta_too_long(c):
    devs = []
    p = {"kind": "filedata", "conf": c["conf"], "offset": c["offset"], "data": c["data"], "meta": {"state": c["state"], "data": (bytes([c["fill"]]) * c["n"]).hex()}}
    expect_raise(devs, "metadata_too_long", lambda: bytes(M.build_pdu(p).pack()))
    return devs


# ---- helper: maximum file segment length ---------------------------------------------------------


def st_maxseg():
    return st.fixed_dictionaries(
        {"conf": M.st_conf(segctrl=True), "meta": st.one_of(st.none(), st.fixed_dictionaries({"state": st.integers(0, 3), "data": hexblob(63)})),
         "slack": st.one_of(st.integers(-20, -1), st.integers(0, 40), st.sampled_from([0, 1, 255, 1000]))}
    )


def check_maxseg(c):
    from spacepackets.cfdp.pdu import file_data as fd

    devs = []
    conf = c["conf"]
    md = None if c["meta"] is None else fd.SegmentMetadata(fd.RecordContinuationState(c["meta"]["state"]), bytes.fromhex(c["meta"]["data"]))
    base = R.header_len(conf) + (8 if conf["large"] else 4) + (2 if conf["crc"] else 0) + (0 if c["meta"] is None else 1 + len(c["meta"]["data"]) // 2)
    m = base + c["slack"]
    if m < 0:
        return devs
    cobj = M.build_conf(conf)
    if c["slack"] < 0:
        expect_raise(devs, "maxseg.too_small", fd.get_max_file_seg_len_for_max_packet_len_and_pdu_cfg, cobj, m, md)
        return devs
    n = fd.get_max_file_seg_len_for_max_packet_len_and_pdu_cfg(cobj, m, md)
    eq(devs, "maxseg.value", n, c["slack"])
    p = {"kind": "filedata", "conf": conf, "offset": 1, "data": (b"\xa5" * n).hex(), "meta": c["meta"]}
    x = M.build_pdu(p)
    eq(devs, "maxseg.packs_to_max", len(x.pack()), m)
    eq(devs, "maxseg.member_fn", x.get_max_file_seg_len_for_max_packet_len(m), n)
    return devs


CLAUSES = [
    Clause(
        id="C07.codec",
        doc="File Data: pack == reference octets; unpack returns exactly offset, metadata and file data; ==, re-pack, lengths after decode",
        strategy=st_filedata,
        check=check_filedata,
        nontrivial=M.pdu_nontrivial,
        classify=_cls,
        required=["crc on", "crc off", "large file", "empty file data", "segment metadata", "segctrl=1", "large segment", "crc+metadata", "crc+empty", "id width 8"],
        n={"quick": 1200, "thorough": 8000},
    ),
    Clause(
        id="C07.metadata_too_long",
        doc="segment metadata longer than 63 octets is refused with ValueError",
        strategy=st_meta_too_long,
        check=check_meta_too_long,
        n={"quick": 150, "thorough": 1000},
        shards={"quick": 1, "thorough": 2},
    ),
    Clause(
        id="C07.max_segment_helper",
        doc="get_max_file_seg_len_for_max_packet_len_and_pdu_cfg: a PDU with that many octets packs to exactly the maximum; too small => ValueError",
        strategy=st_maxseg,
        check=check_maxseg,
        classify=lambda c: ["too small" if c["slack"] < 0 else "fits", "with metadata" if c["meta"] else "no metadata"],
        required=["too small", "fits", "with metadata", "no metadata"],
        n={"quick": 500, "thorough": 4000},
    ),
]

PROPERTY = Property(
    id="C07",
    level="exploration",
    rule=(
        "header configuration incl. segmentation control x offsets boundary-weighted over 32/64 bit x file data of length {0,1,2,small,255,256,4096,near the 65535 limit} x "
        "optional segment metadata (4 states, 0..63 octets); oracle = reference File Data encoder; non-trivial = CRC on or metadata or empty data or large file or width != 1"
    ),
    clauses=CLAUSES,
    assumptions=["vf/ref/cfdp.py filedata_field() is the trusted statement of 727.0-B-5 5.3"],
)
