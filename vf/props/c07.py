"""C07 - CFDP File Data PDU carries offset, segment metadata and file data exactly."""
from __future__ import annotations

from hypothesis import strategies as st

from .. import cfdp_model as M
from ..core import Clause, Dev, eq, expect_raise, true
from ..prop import Property
from ..ref import cfdp as R
from ..strategies import fillblob, hexblob


def st_filedata():
    def for_conf(c):
        base = M._st_pdu_for("filedata", c)
        # a few large segments described compactly
        overhead = R.header_len(c) + (8 if c["large"] else 4) + (2 if c["crc"] else 0)
        big = st.sampled_from([255, 256, 4096, 65535 - overhead - 64, 65535 - overhead + R.header_len(c)]).flatmap(fillblob)
        return st.one_of(base, base, base, st.tuples(base, big).map(lambda t: {**t[0], "data": t[1], "meta": None}))

    return M.st_conf(segctrl=True).flatmap(for_conf)


def check_filedata(p):
    devs = []
    data = M.file_data_of(p)
    want = M.ref_pdu(p)
    wo = M.want_pdu_obs(p, want)
    x = M.build_pdu(p)
    eq(devs, "enc.fields", M.obs_pdu(x, "filedata"), wo)
    packed = x.pack()
    eq(devs, "enc.bytes", bytes(packed), want)
    eq(devs, "enc.len_vs_packet_len", len(packed), x.packet_len)
    hl = R.header_len(p["conf"])
    eq(devs, "enc.data_field_len", int.from_bytes(packed[1:3], "big"), len(packed) - hl)
    eq(devs, "enc.pdu_data_field_len", x.pdu_data_field_len, len(packed) - hl)
    cls = M.pdu_class("filedata")
    for tag, buf in (("bytes", bytes(want)), ("bytearray", bytearray(want))):
        y = cls.unpack(buf)
        eq(devs, f"dec.file_data_len.{tag}", len(y.file_data), len(data))
        eq(devs, f"dec.fields.{tag}", M.obs_pdu(y, "filedata"), wo)
        true(devs, f"dec.eq.{tag}", bool(y == x) and bool(x == y), "unpack(pack(x)) != x")
        eq(devs, f"dec.repack.{tag}", bytes(y.pack()), want)
        eq(devs, f"dec.packet_len.{tag}", y.packet_len, len(want))
        eq(devs, f"dec.pdu_data_field_len.{tag}", y.pdu_data_field_len, len(want) - hl)
    if len(data) <= 4096:
        devs.extend(M.pdu_histories(p, want, wo, cls.unpack))
        devs.extend(_filedata_histories(p, data, want))
    return devs


def _filedata_histories(p, data, want):
    """Caller-owned mutable file data / metadata buffers and a metadata object that is updated in place and assigned again."""
    from spacepackets.cfdp import pdu as P
    from spacepackets.cfdp.pdu.file_data import RecordContinuationState, SegmentMetadata

    from ..core import scribble

    devs = []
    # a decoded PDU (any header configuration) whose file data / metadata is then replaced through the documented setters
    y = P.FileDataPdu.unpack(want)
    new_data = data[: len(data) // 2] + b"\x99"
    y.file_data = new_data
    q1 = {**p, "data": new_data.hex()}
    eq(devs, "hist.decoded_then_file_data_set.pack", bytes(y.pack()), M.ref_pdu(q1))
    eq(devs, "hist.decoded_then_file_data_set.packet_len", y.packet_len, len(M.ref_pdu(q1)))
    y.segment_metadata = SegmentMetadata(RecordContinuationState(3), b"\x01\x02\x03")
    q2 = {**q1, "meta": {"state": 3, "data": "010203"}}
    eq(devs, "hist.decoded_then_metadata_set.pack", bytes(y.pack()), M.ref_pdu(q2))
    # the large-file flag changed through the public header object, then a documented setter, then pack: offset width follows the flag
    from spacepackets.cfdp import defs as cd

    if p["offset"] < (1 << 32):
        z = P.FileDataPdu.unpack(want) if len(data) % 2 else M.build_pdu(p)
        z.pdu_header.file_flag = cd.LargeFileFlag(1 - p["conf"]["large"])
        z.file_data = data
        qf = {**p, "conf": {**p["conf"], "large": 1 - p["conf"]["large"]}}
        eq(devs, "hist.file_flag_changed_through_header_then_setter.pack", bytes(z.pack()), M.ref_pdu(qf))
        eq(devs, "hist.file_flag_changed_through_header_then_setter.packet_len", z.packet_len, len(M.ref_pdu(qf)))
    if p["offset"] < (1 << 32):
        # the header's whole configuration object replaced (CRC and large-file flags differ), then the documented setter
        z2 = P.FileDataPdu.unpack(want) if len(data) % 2 == 0 else M.build_pdu(p)
        qc = {**p, "conf": {**p["conf"], "large": 1 - p["conf"]["large"], "crc": 1 - p["conf"]["crc"]}}
        # (the replacement carries the direction a File Data PDU has; the constructor would have set it, a bare assignment does not)
        z2.pdu_header.pdu_conf = M.build_conf({**qc["conf"], "dir": R.direction_of(qc)})
        z2.file_data = data
        eq(devs, "hist.configuration_object_replaced_through_header_then_setter.pack", bytes(z2.pack()), M.ref_pdu(qc))
        eq(devs, "hist.configuration_object_replaced_through_header_then_setter.packet_len", z2.packet_len, len(M.ref_pdu(qc)))
    c_data = bytearray(data)
    meta = None
    c_meta = None
    if p.get("meta") is not None:
        c_meta = bytearray(bytes.fromhex(p["meta"]["data"]))
        meta = SegmentMetadata(RecordContinuationState(p["meta"]["state"]), c_meta)
    x = P.FileDataPdu(M.build_conf(p["conf"]), P.FileDataParams(c_data, p["offset"], meta))
    eq(devs, "hist.bytearray_inputs.pack", bytes(x.pack()), want)
    eq(devs, "hist.bytearray_inputs.pack_again", bytes(x.pack()), want)
    eq(devs, "hist.bytearray_inputs.caller_file_data_untouched", bytes(c_data), data)
    if c_meta is not None:
        eq(devs, "hist.bytearray_inputs.caller_metadata_untouched", bytes(c_meta), bytes.fromhex(p["meta"]["data"]))
        # the metadata object the PDU holds is updated in place by its owner and assigned again through the documented setter
        held = x.segment_metadata
        new_md = (bytes.fromhex(p["meta"]["data"]) + b"\x77\x66")[:63]
        held.metadata = new_md
        x.segment_metadata = held
        q = {**p, "meta": {"state": p["meta"]["state"], "data": new_md.hex()}}
        want2 = M.ref_pdu(q)
        eq(devs, "hist.metadata_updated_in_place_then_assigned.pack", bytes(x.pack()), want2)
        eq(devs, "hist.metadata_updated_in_place_then_assigned.packet_len", x.packet_len, len(want2))
        # ... and resized in place again, this time followed by the OTHER setter (file data): the length covers the live metadata
        newer_md = new_md[: max(0, len(new_md) - 3)]
        held.metadata = newer_md
        x.file_data = data + b"\x42"
        q3 = {**p, "data": (data + b"\x42").hex(), "meta": {"state": p["meta"]["state"], "data": newer_md.hex()}}
        eq(devs, "hist.metadata_resized_in_place_then_file_data_set.pack", bytes(x.pack()), M.ref_pdu(q3))
    return devs


def _cls(p):
    out = M.pdu_classes(p)
    if p["conf"]["segctrl"]:
        out.append("segctrl=1")
    if isinstance(p["data"], dict):
        out.append("large segment")
    if p["conf"]["crc"] and p.get("meta") is not None:
        out.append("crc+metadata")
    if p["conf"]["crc"] and p["data"] == "":
        out.append("crc+empty")
    return out


# ---- the 16-bit data-field limit: exact fit, refused growth, recovery ------------------------------------------


def self_consistent(devs, x, conf, tag):
    """Whatever values the object now reports, its octets are the reference encoding of exactly those values and decode back to them."""
    o = M.obs_pdu(x, "filedata")
    q = {"kind": "filedata", "conf": conf, "offset": o["offset"], "data": o["data"], "meta": o["meta"]}
    want = M.ref_pdu(q)
    packed = bytes(x.pack())
    eq(devs, f"{tag}.octets_vs_reported_values", packed[:64] + packed[-8:], want[:64] + want[-8:], "octets are not the encoding of the values the object reports")
    eq(devs, f"{tag}.len_vs_reported_values", len(packed), len(want))
    eq(devs, f"{tag}.packet_len", x.packet_len, len(packed))
    if packed == want:
        y = M.pdu_class("filedata").unpack(packed)
        eq(devs, f"{tag}.decodes_back", M.obs_pdu(y, "filedata"), M.want_pdu_obs(q, want))


def check_limit(c):
    from spacepackets.cfdp import pdu as P
    from spacepackets.cfdp.pdu.file_data import RecordContinuationState, SegmentMetadata

    devs = []
    conf = c["conf"]
    overhead = (8 if conf["large"] else 4) + (2 if conf["crc"] else 0)
    md = bytes(range(c["meta_len"]))
    fill = lambda n: bytes((i * 7 + 3) & 0xFF for i in range(n))  # noqa: E731
    if c["k"] == "grow_metadata":
        # no metadata, file data leaving `room` octets below the limit; adding 1 + meta_len > room octets of metadata must be refused;
        # the caller then shortens the file data: from then on everything is consistent again
        n = 65535 - overhead - c["room"]
        x = P.FileDataPdu(M.build_conf(conf), P.FileDataParams(fill(n), 5, None))
        self_consistent(devs, x, conf, "exact_fit")

        def grow():
            x.segment_metadata = SegmentMetadata(RecordContinuationState(2), md)
            return x.pack()

        expect_raise(devs, "limit.metadata_beyond_16_bit_length", grow, accept=(ValueError,))
        x.file_data = fill(n - c["meta_len"] - 1 - c["slack"])
        self_consistent(devs, x, conf, "after_refused_growth_and_shorter_data")
    else:
        # metadata present, exact fit; growing the file data by one octet must be refused; shortening again recovers
        n = 65535 - overhead - 1 - c["meta_len"]
        x = P.FileDataPdu(M.build_conf(conf), P.FileDataParams(fill(n), 5, SegmentMetadata(RecordContinuationState(1), md)))
        self_consistent(devs, x, conf, "exact_fit")

        def grow2():
            x.file_data = fill(n + 1 + c["room"])
            return x.pack()

        expect_raise(devs, "limit.file_data_beyond_16_bit_length", grow2, accept=(ValueError,))
        x.file_data = fill(n - c["slack"])
        self_consistent(devs, x, conf, "after_refused_growth_and_shorter_data")
        x.segment_metadata = None
        self_consistent(devs, x, conf, "after_metadata_removed")
    return devs


def enum_limit(tier, shard, nshards, rng):
    cases = []
    for crc in (0, 1):
        for large in (0, 1):
            conf = {"crc": crc, "large": large, "mode": 1, "dir": 0, "segctrl": 1, "idw": 2, "seqw": 1, "src": 0x0102, "dst": 0xFFFE, "seq": 9}
            for room, meta_len, slack in ((0, 0, 0), (0, 5, 0), (3, 3, 2), (10, 63, 0), (63, 63, 1)):
                cases.append({"k": "grow_metadata", "conf": conf, "room": room, "meta_len": meta_len, "slack": slack})
            for room, meta_len, slack in ((0, 0, 0), (0, 63, 3), (5, 17, 0)):
                cases.append({"k": "grow_file_data", "conf": conf, "room": room, "meta_len": meta_len, "slack": slack})
    for i, c in enumerate(cases):
        if i % nshards == shard:
            yield c


# ---- metadata > 63 refused ---------------------------------------------------------------------


def st_meta_too_long():
    return st.fixed_dictionaries(
        {"conf": M.st_conf(segctrl=True), "state": st.integers(0, 3), "n": st.sampled_from([64, 65, 100, 127, 128, 255, 256]), "fill": st.integers(0, 255), "offset": st.integers(0, 1000), "data": hexblob(8)}
    )


def check_meta_too_long(c):
    devs = []
    p = {"kind": "filedata", "conf": c["conf"], "offset": c["offset"], "data": c["data"], "meta": {"state": c["state"], "data": (bytes([c["fill"]]) * c["n"]).hex()}}
    expect_raise(devs, "metadata_too_long", lambda: bytes(M.build_pdu(p).pack()))
    return devs


# ---- helper: maximum file segment length ---------------------------------------------------------


def st_maxseg():
    return st.fixed_dictionaries(
        {"conf": M.st_conf(segctrl=True), "meta": st.one_of(st.none(), st.fixed_dictionaries({"state": st.integers(0, 3), "data": hexblob(63)})),
         "slack": st.one_of(st.integers(-20, -1), st.integers(0, 40), st.sampled_from([0, 1, 255, 1000]))}
    )


def check_maxseg(c):
    from spacepackets.cfdp.pdu import file_data as fd

    devs = []
    conf = c["conf"]
    md = None if c["meta"] is None else fd.SegmentMetadata(fd.RecordContinuationState(c["meta"]["state"]), bytes.fromhex(c["meta"]["data"]))
    base = R.header_len(conf) + (8 if conf["large"] else 4) + (2 if conf["crc"] else 0) + (0 if c["meta"] is None else 1 + len(c["meta"]["data"]) // 2)
    m = base + c["slack"]
    if m < 0:
        return devs
    cobj = M.build_conf(conf)
    if c["slack"] < 0:
        expect_raise(devs, "maxseg.too_small", fd.get_max_file_seg_len_for_max_packet_len_and_pdu_cfg, cobj, m, md)
        return devs
    n = fd.get_max_file_seg_len_for_max_packet_len_and_pdu_cfg(cobj, m, md)
    eq(devs, "maxseg.value", n, c["slack"])
    p = {"kind": "filedata", "conf": conf, "offset": 1, "data": (b"\xa5" * n).hex(), "meta": c["meta"]}
    x = M.build_pdu(p)
    eq(devs, "maxseg.packs_to_max", len(x.pack()), m)
    eq(devs, "maxseg.member_fn", x.get_max_file_seg_len_for_max_packet_len(m), n)
    return devs


CLAUSES = [
    Clause(
        id="C07.codec",
        doc="File Data: pack == reference octets; unpack returns exactly offset, metadata and file data; ==, re-pack, lengths after decode",
        strategy=st_filedata,
        check=check_filedata,
        nontrivial=M.pdu_nontrivial,
        classify=_cls,
        required=["crc on", "crc off", "large file", "empty file data", "segment metadata", "segctrl=1", "large segment", "crc+metadata", "crc+empty", "id width 8"],
        n={"quick": 1200, "thorough": 8000},
    ),
    Clause(
        id="C07.limit",
        doc="File Data PDUs that fit the 16-bit data-field length exactly; growth beyond it (metadata added / file data extended) is refused; after the caller shortens the data "
            "again the octets are the reference encoding of the values the object reports and decode back to them",
        kind="enum",
        enum=enum_limit,
        check=check_limit,
        classify=lambda c: [c["k"]] + (["crc on"] if c["conf"]["crc"] else []) + (["large file"] if c["conf"]["large"] else []),
        required=["grow_metadata", "grow_file_data", "crc on", "large file"],
        shards={"quick": 8, "thorough": 8},
        exhaustive_note="32 listed limit histories (4 header configurations x 8 size relations)",
    ),
    Clause(
        id="C07.metadata_too_long",
        doc="segment metadata longer than 63 octets is refused with ValueError",
        strategy=st_meta_too_long,
        check=check_meta_too_long,
        n={"quick": 150, "thorough": 1000},
        shards={"quick": 1, "thorough": 2},
    ),
    Clause(
        id="C07.max_segment_helper",
        doc="get_max_file_seg_len_for_max_packet_len_and_pdu_cfg: a PDU with that many octets packs to exactly the maximum; too small => ValueError",
        strategy=st_maxseg,
        check=check_maxseg,
        classify=lambda c: ["too small" if c["slack"] < 0 else "fits", "with metadata" if c["meta"] else "no metadata"],
        required=["too small", "fits", "with metadata", "no metadata"],
        n={"quick": 500, "thorough": 4000},
    ),
]

from ..names_check import names_clause  # noqa: E402

if names_clause("C07") is not None:
    CLAUSES.append(names_clause("C07"))

PROPERTY = Property(
    id="C07",
    level="exploration",
    rule=(
        "header configuration incl. segmentation control x offsets boundary-weighted over 32/64 bit x file data of length {0,1,2,small,255,256,4096,near the 65535 limit} x "
        "optional segment metadata (4 states, 0..63 octets); oracle = reference File Data encoder; non-trivial = CRC on or metadata or empty data or large file or width != 1"
    ),
    clauses=CLAUSES,
    assumptions=["vf/ref/cfdp.py filedata_field() is the trusted statement of 727.0-B-5 5.3"],
)
