"""C17 - USLP headers and transfer frames encode exactly per 732.1-B-2 and round-trip."""
from __future__ import annotations

from hypothesis import strategies as st

from ..core import Clause, Dev, eq, expect_raise, true
from ..prop import Property
from ..ref import uslp as RU
from ..strategies import hexblob, uint

UPIDS = (0b00000, 0b00001, 0b00010, 0b00011, 0b00100, 0b00101, 0b00111, 0b11111, 0b00110, 0b01000)
FP_RULES = (0, 1, 2)
VP_RULES = (3, 4, 5, 6, 7)


def _m():
    from spacepackets.uslp import defs, frame, header

    return header, frame, defs


# ---- primary headers -----------------------------------------------------------------------------


def st_header():
    def with_len(n):
        return st.fixed_dictionaries(
            {
                "scid": uint(16), "src_dest": st.integers(0, 1), "vcid": uint(6), "map_id": uint(4), "frame_len": uint(16), "bypass": st.integers(0, 1),
                "prot_cmd": st.integers(0, 1), "ocf_flag": st.integers(0, 1), "vcf_len": st.just(n), "vcf_count": uint(8 * n), "tail": hexblob(8),
            }
        )

    return st.integers(0, 7).flatmap(with_len)


def build_header_ints(c):
    """The same header with every enumerated field given as a plain integer / bool."""
    H, _, _ = _m()
    return H.PrimaryHeader(
        scid=c["scid"], src_dest=c["src_dest"], vcid=c["vcid"], map_id=c["map_id"], frame_len=c["frame_len"], bypass_seq_ctrl_flag=c["bypass"], prot_ctrl_cmd_flag=c["prot_cmd"],
        op_ctrl_flag=bool(c["ocf_flag"]), vcf_count_len=c["vcf_len"], vcf_count=c["vcf_count"] if c["vcf_len"] else None,
    )


def build_header(c):
    H, _, _ = _m()
    return H.PrimaryHeader(
        scid=c["scid"], src_dest=H.SourceOrDestField(c["src_dest"]), vcid=c["vcid"], map_id=c["map_id"], frame_len=c["frame_len"],
        bypass_seq_ctrl_flag=H.BypassSequenceControlFlag(c["bypass"]), prot_ctrl_cmd_flag=H.ProtocolCommandFlag(c["prot_cmd"]),
        op_ctrl_flag=bool(c["ocf_flag"]), vcf_count_len=c["vcf_len"], vcf_count=c["vcf_count"] if c["vcf_len"] else None,
    )


def obs_header(h) -> dict:
    o = {"scid": int(h.scid), "src_dest": int(h.src_dest), "vcid": int(h.vcid), "map_id": int(h.map_id), "truncated": bool(h.truncated()), "len": int(h.len())}
    if not h.truncated():
        o.update(frame_len=int(h.frame_len), bypass=int(h.bypass_seq_ctrl_flag), prot_cmd=int(h.prot_ctrl_cmd_flag), ocf_flag=int(bool(h.op_ctrl_flag)),
                 vcf_len=int(h.vcf_count_len), vcf_count=int(h.vcf_count or 0))
    return o


def want_header_obs(c) -> dict:
    return {
        "scid": c["scid"], "src_dest": c["src_dest"], "vcid": c["vcid"], "map_id": c["map_id"], "truncated": False, "len": 7 + c["vcf_len"], "frame_len": c["frame_len"],
        "bypass": c["bypass"], "prot_cmd": c["prot_cmd"], "ocf_flag": c["ocf_flag"], "vcf_len": c["vcf_len"], "vcf_count": c["vcf_count"] if c["vcf_len"] else 0,
    }


def check_header(c):
    H, _, D = _m()
    devs = []
    want = RU.primary_header(c["scid"], c["src_dest"], c["vcid"], c["map_id"], c["frame_len"], c["bypass"], c["prot_cmd"], c["ocf_flag"], c["vcf_len"], c["vcf_count"])
    h = build_header(c)
    eq(devs, "hdr.pack", bytes(h.pack()), want)
    eq(devs, "hdr.len", h.len(), len(want))
    eq(devs, "hdr.obs", obs_header(h), want_header_obs(c))
    from ..core import pack_fresh

    pack_fresh(devs, "hdr.pack_returns_fresh_buffer", h.pack, want)
    hi = build_header_ints(c)
    eq(devs, "hdr.plain_int_fields.pack", bytes(hi.pack()), want)
    eq(devs, "hdr.plain_int_fields.obs", obs_header(hi), want_header_obs(c))
    # a channel without a VCF count field (length 0): whatever running count the object carries, the header is the 7 octets of the standard
    import copy as _copy

    h0 = build_header(c)
    h0.vcf_count_len = 0
    h0.vcf_count = c["vcf_count"] or 5
    w0 = RU.primary_header(c["scid"], c["src_dest"], c["vcid"], c["map_id"], c["frame_len"], c["bypass"], c["prot_cmd"], c["ocf_flag"], 0, 0)
    eq(devs, "hdr.vcf_len_zero_with_a_count.pack", bytes(h0.pack()), w0)
    eq(devs, "hdr.vcf_len_zero_with_a_count.len", h0.len(), 7)
    from ..core import copies_equal

    copies_equal(devs, "hdr.copy", build_header(c), lambda o: bytes(o.pack()), want)
    tail = bytes.fromhex(c["tail"])
    for tag, buf in (("exact", want), ("tail", want + tail), ("bytearray", bytearray(want + tail))):
        u = H.PrimaryHeader.unpack(buf)
        eq(devs, f"hdr.dec.obs.{tag}", obs_header(u), want_header_obs(c))
        eq(devs, f"hdr.dec.repack.{tag}", bytes(u.pack()), want)
    eq(devs, "hdr.type", H.determine_header_type(want), H.HeaderType.NON_TRUNCATED)
    expect_raise(devs, "hdr.as_truncated", H.TruncatedPrimaryHeader.unpack, want, accept=(D.UslpTypeMissmatch,))
    # truncated header with the same ids
    tw = RU.truncated_header(c["scid"], c["src_dest"], c["vcid"], c["map_id"])
    t = H.TruncatedPrimaryHeader(scid=c["scid"], src_dest=H.SourceOrDestField(c["src_dest"]), vcid=c["vcid"], map_id=c["map_id"])
    eq(devs, "trunc.pack", bytes(t.pack()), tw)
    eq(devs, "trunc.len", t.len(), 4)
    tu = H.TruncatedPrimaryHeader.unpack(tw + tail)
    eq(devs, "trunc.dec.obs", obs_header(tu), {"scid": c["scid"], "src_dest": c["src_dest"], "vcid": c["vcid"], "map_id": c["map_id"], "truncated": True, "len": 4})
    eq(devs, "trunc.dec.repack", bytes(tu.pack()), tw)
    eq(devs, "trunc.type", H.determine_header_type(tw), H.HeaderType.TRUNCATED)
    expect_raise(devs, "trunc.as_primary", H.PrimaryHeader.unpack, tw + bytes(10), accept=(D.UslpTypeMissmatch,))
    return devs


def _nt_header(c):
    straddle = (c["scid"] & 0xF000 and c["scid"] & 0x000F) or (c["vcid"] & 0b111000 and c["vcid"] & 0b000111)
    return c["vcf_len"] in (3, 5, 6, 7) or bool(straddle)


def st_header_oob():
    bad = st.sampled_from(["scid", "vcid", "map_id"]).flatmap(
        lambda f: st.fixed_dictionaries({"field": st.just(f), "value": st.one_of(st.just({"scid": 65536, "vcid": 64, "map_id": 16}[f]), st.integers({"scid": 65536, "vcid": 64, "map_id": 16}[f], 1 << 24))})
    )
    return st.tuples(st_header(), bad).map(lambda t: {**t[0], "bad": t[1]})


def check_header_oob(c):
    H, _, _ = _m()
    devs = []
    cc = dict(c)
    cc[c["bad"]["field"]] = c["bad"]["value"]
    expect_raise(devs, f"oob.{c['bad']['field']}.primary", lambda: build_header(cc).pack())
    expect_raise(devs, f"oob.{c['bad']['field']}.truncated", lambda: H.TruncatedPrimaryHeader(scid=cc["scid"], src_dest=H.SourceOrDestField(cc["src_dest"]), vcid=cc["vcid"], map_id=cc["map_id"]).pack())
    return devs


# ---- frames ----------------------------------------------------------------------------------------


def st_frame():
    def for_kind(kind):
        rules = FP_RULES if kind == "fixed" else VP_RULES
        base = {
            "kind": st.just(kind), "rule": st.sampled_from(rules), "upid": st.sampled_from(UPIDS), "tfdz": st.one_of(st.just(""), hexblob(64)),
            "pointer": uint(16) if kind == "fixed" else st.none(),
            "hdr": st_header(),
        }
        if kind == "truncated":
            base.update(insert_zone=st.none(), ocf=st.none(), fecf=st.none())
        else:
            base.update(
                insert_zone=st.one_of(st.none(), st.binary(min_size=1, max_size=8).map(bytes.hex)),
                ocf=st.one_of(st.none(), st.binary(min_size=4, max_size=4).map(bytes.hex)),
                fecf=st.one_of(st.none(), st.sampled_from([2, 4]).flatmap(lambda n: st.binary(min_size=n, max_size=n)).map(bytes.hex)),
            )
        return st.fixed_dictionaries(base)

    return st.sampled_from(["fixed", "fixed", "variable", "variable", "truncated"]).flatmap(for_kind)


def build_frame(c):
    H, F, _ = _m()
    hc = dict(c["hdr"])
    hc["ocf_flag"] = int(c["ocf"] is not None)
    if c["kind"] == "truncated":
        header = H.TruncatedPrimaryHeader(scid=hc["scid"], src_dest=H.SourceOrDestField(hc["src_dest"]), vcid=hc["vcid"], map_id=hc["map_id"])
    else:
        header = build_header(hc)
    tfdf = F.TransferFrameDataField(F.TfdzConstructionRules(c["rule"]), F.UslpProtocolIdentifier(c["upid"]), bytes.fromhex(c["tfdz"]), c["pointer"])
    b = lambda x: None if x is None else bytes.fromhex(x)  # noqa: E731
    return F.TransferFrame(header, tfdf, insert_zone=b(c["insert_zone"]), op_ctrl_field=b(c["ocf"]), fecf=b(c["fecf"])), hc


def frame_type_of(F, c):
    return F.FrameType.FIXED if c["kind"] == "fixed" else F.FrameType.VARIABLE


def ref_frame(c, hc, frame_len_field):
    b = lambda x: b"" if x is None else bytes.fromhex(x)  # noqa: E731
    if c["kind"] == "truncated":
        hdr = RU.truncated_header(hc["scid"], hc["src_dest"], hc["vcid"], hc["map_id"])
    else:
        hdr = RU.primary_header(hc["scid"], hc["src_dest"], hc["vcid"], hc["map_id"], frame_len_field, hc["bypass"], hc["prot_cmd"], hc["ocf_flag"], hc["vcf_len"], hc["vcf_count"])
    return RU.frame(hdr, b(c["insert_zone"]), c["rule"], c["upid"], c["pointer"], bytes.fromhex(c["tfdz"]), b(c["ocf"]), b(c["fecf"]))


def properties_for(F, c, total_len, **over):
    iz = None if c["insert_zone"] is None else len(c["insert_zone"]) // 2
    fe = None if c["fecf"] is None else len(c["fecf"]) // 2
    kw = dict(has_insert_zone=iz is not None, has_fecf=fe is not None, insert_zone_len=iz, fecf_len=fe)
    kw.update(over)
    if c["kind"] == "fixed":
        kw.setdefault("fixed_len", total_len)
        return F.FixedFrameProperties(**kw)
    kw.setdefault("truncated_frame_len", total_len)
    return F.VarFrameProperties(**kw)


def obs_frame(f) -> dict:
    hx = lambda x: None if x is None else bytes(x).hex()  # noqa: E731
    return {
        "header": obs_header(f.header), "insert_zone": hx(f.insert_zone), "rule": int(f.tfdf.tfdz_contr_rules), "upid": int(f.tfdf.uslp_ident),
        "pointer": f.tfdf.fhp_or_lvop, "tfdz": hx(f.tfdf.tfdz), "ocf": hx(f.op_ctrl_field), "fecf": hx(f.fecf),
    }


def check_frame(c):
    H, F, D = _m()
    devs = []
    fr, hc = build_frame(c)
    ft = frame_type_of(F, c)
    trunc = c["kind"] == "truncated"
    # length before and after updating the header field
    size = (4 if trunc else 7 + hc["vcf_len"]) + (len(c["insert_zone"]) // 2 if c["insert_zone"] else 0) + 1 + (2 if c["pointer"] is not None else 0) + len(c["tfdz"]) // 2 + (4 if c["ocf"] else 0) + (len(c["fecf"]) // 2 if c["fecf"] else 0)
    eq(devs, "frame.len", fr.len(), size)
    packed0 = fr.pack(truncated=trunc, frame_type=ft)
    eq(devs, "frame.len_vs_pack", len(packed0), fr.len())
    eq(devs, "frame.bytes_before_update", bytes(packed0), ref_frame(c, hc, hc["frame_len"]))
    fr.set_frame_len_in_header()
    packed = fr.pack(truncated=trunc, frame_type=ft)
    want = ref_frame(c, hc, size - 1)
    eq(devs, "frame.bytes", bytes(packed), want)
    eq(devs, "frame.len_after_update", fr.len(), len(packed))
    if not trunc:
        eq(devs, "frame.len_field", int.from_bytes(packed[4:6], "big"), len(packed) - 1)
    # decode with the matching managed parameters
    props = properties_for(F, c, len(want))
    want_obs = {
        "header": ({"scid": hc["scid"], "src_dest": hc["src_dest"], "vcid": hc["vcid"], "map_id": hc["map_id"], "truncated": True, "len": 4} if trunc else {**want_header_obs(hc), "frame_len": size - 1}),
        "insert_zone": c["insert_zone"], "rule": c["rule"], "upid": c["upid"], "pointer": c["pointer"], "tfdz": c["tfdz"], "ocf": c["ocf"], "fecf": c["fecf"],
    }
    for tag, buf in (("bytes", bytes(want)), ("bytearray", bytearray(want))):
        u = F.TransferFrame.unpack(buf, ft, props)
        eq(devs, f"frame.dec.obs.{tag}", obs_frame(u), want_obs)
        eq(devs, f"frame.dec.repack.{tag}", bytes(u.pack(truncated=trunc, frame_type=ft)), want)
        eq(devs, f"frame.dec.len.{tag}", u.len(), len(want))
    # the frame followed by further octets in the receive buffer (the next frame, fill): the length field / managed length delimits the frame
    for tag, tail in (("next_frame", bytes(want)), ("fill", b"\x55" * 7), ("one_octet", b"\x00")):
        u = F.TransferFrame.unpack(bytes(want) + tail, ft, props)
        eq(devs, f"frame.dec.obs.longer_buffer.{tag}", obs_frame(u), want_obs)
        eq(devs, f"frame.dec.len.longer_buffer.{tag}", u.len(), len(want))
        eq(devs, f"frame.dec.repack.longer_buffer.{tag}", bytes(u.pack(truncated=trunc, frame_type=ft)), want)
    # the data field on its own, with the frame type left out (documented as optional: it is only used for the rule check)
    if not trunc:
        tf = F.TransferFrameDataField(F.TfdzConstructionRules(c["rule"]), F.UslpProtocolIdentifier(c["upid"]), bytes.fromhex(c["tfdz"]), c["pointer"])
        raw_tfdf = RU.tfdf_header(c["rule"], c["upid"], c["pointer"]) + bytes.fromhex(c["tfdz"])
        eq(devs, "tfdf.pack_without_frame_type", bytes(tf.pack(truncated=False, frame_type=None)), raw_tfdf)
        tu = F.TransferFrameDataField.unpack(raw_tfdf + b"\xee\xee", False, len(raw_tfdf), None)
        eq(devs, "tfdf.unpack_without_frame_type", (int(tu.tfdz_contr_rules), int(tu.uslp_ident), tu.fhp_or_lvop, bytes(tu.tfdz).hex()), (c["rule"], c["upid"], c["pointer"], c["tfdz"]))
        eq(devs, "tfdf.len_without_frame_type", tu.len(), len(raw_tfdf))
    # another managed-parameter object (another virtual channel) is switched to "FECF / insert zone present" in place; the parameters of
    # this channel - built before and after - still say what they said
    props_before = properties_for(F, c, len(want))
    other_props = properties_for(F, {**c, "insert_zone": None, "fecf": None}, len(want))
    other_props.fecf_properties.present = True
    other_props.fecf_properties.size = 2
    other_props.insert_zone_properties.present = True
    other_props.insert_zone_properties.size = 3
    for tag_p, pr in (("built_before", props_before), ("built_after", properties_for(F, c, len(want)))):
        eq(devs, f"frame.dec.obs.after_another_parameter_object_was_changed.{tag_p}", obs_frame(F.TransferFrame.unpack(bytes(want), ft, pr)), want_obs)
    # managed parameters that carry a configured size for a field that is switched off (the size is then irrelevant)
    over = {}
    if c["insert_zone"] is None:
        over.update(has_insert_zone=False, insert_zone_len=4)
    if c["fecf"] is None:
        over.update(has_fecf=False, fecf_len=2)
    if over:
        u = F.TransferFrame.unpack(bytes(want), ft, properties_for(F, c, len(want), **over))
        eq(devs, "frame.dec.obs.size_configured_for_absent_field", obs_frame(u), want_obs)
    # the composition side of the mismatch clause: a frame whose header flag and operational control field disagree, an OCF that is
    # not 4 octets, a data field that needs its pointer and has none - refused with the USLP errors, and the frame packs as before afterwards
    if not trunc:
        bad_frames = []
        hflip = build_header({**hc, "ocf_flag": 1 - hc["ocf_flag"]})
        mk_tfdf = lambda ptr=c["pointer"]: F.TransferFrameDataField(F.TfdzConstructionRules(c["rule"]), F.UslpProtocolIdentifier(c["upid"]), bytes.fromhex(c["tfdz"]), ptr)  # noqa: E731
        b_ = lambda x: None if x is None else bytes.fromhex(x)  # noqa: E731
        bad_frames.append(("ocf_flag_and_field_disagree", F.TransferFrame(hflip, mk_tfdf(), insert_zone=b_(c["insert_zone"]), op_ctrl_field=b_(c["ocf"]), fecf=b_(c["fecf"])), (D.UslpInvalidFrameHeader,)))
        bad_frames.append(("ocf_not_four_octets", F.TransferFrame(build_header({**hc, "ocf_flag": 1}), mk_tfdf(), insert_zone=b_(c["insert_zone"]), op_ctrl_field=b"\x01\x02\x03", fecf=b_(c["fecf"])), (ValueError,)))
        if c["pointer"] is not None:
            bad_frames.append(("pointer_missing", F.TransferFrame(build_header(hc), mk_tfdf(None), insert_zone=b_(c["insert_zone"]), op_ctrl_field=b_(c["ocf"]), fecf=b_(c["fecf"])), (D.UslpFhpVhopFieldMissing,)))
        for tag, bf, exc in bad_frames:
            expect_raise(devs, f"frame.compose_refused.{tag}", lambda bf=bf: bf.pack(truncated=False, frame_type=ft), accept=exc)
        eq(devs, "frame.pack_after_refused_compositions", bytes(fr.pack(truncated=trunc, frame_type=ft)), want)
    # histories: pack hands out a fresh buffer; caller-owned mutable zone / trailer buffers are not modified and packing is repeatable
    from ..core import pack_fresh, scribble

    pack_fresh(devs, "frame.pack_returns_fresh_buffer", lambda: fr.pack(truncated=trunc, frame_type=ft), want)
    b = lambda x: None if x is None else bytearray(bytes.fromhex(x))  # noqa: E731
    iz, ocf, fecf, tfdz = b(c["insert_zone"]), b(c["ocf"]), b(c["fecf"]), bytearray(bytes.fromhex(c["tfdz"]))
    hdr2 = H.TruncatedPrimaryHeader(scid=hc["scid"], src_dest=H.SourceOrDestField(hc["src_dest"]), vcid=hc["vcid"], map_id=hc["map_id"]) if trunc else build_header(hc)
    fr2 = F.TransferFrame(hdr2, F.TransferFrameDataField(F.TfdzConstructionRules(c["rule"]), F.UslpProtocolIdentifier(c["upid"]), tfdz, c["pointer"]), insert_zone=iz, op_ctrl_field=ocf, fecf=fecf)
    fr2.set_frame_len_in_header()
    eq(devs, "frame.bytearray_inputs.pack", bytes(fr2.pack(truncated=trunc, frame_type=ft)), want)
    eq(devs, "frame.bytearray_inputs.len_after_pack", fr2.len(), len(want))
    fr2.set_frame_len_in_header()
    eq(devs, "frame.bytearray_inputs.pack_again", bytes(fr2.pack(truncated=trunc, frame_type=ft)), want)
    for nm, buf, orig in (("insert_zone", iz, c["insert_zone"]), ("ocf", ocf, c["ocf"]), ("fecf", fecf, c["fecf"]), ("tfdz", tfdz, c["tfdz"])):
        if buf is not None:
            eq(devs, f"frame.bytearray_inputs.caller_{nm}_untouched", bytes(buf), bytes.fromhex(orig))
    buf = bytearray(want)
    u = F.TransferFrame.unpack(buf, ft, props)
    scribble(buf)
    eq(devs, "frame.dec.obs_after_caller_reused_buffer", obs_frame(u), want_obs)
    return devs


def _nt_frame(c):
    return sum(x is not None for x in (c["insert_zone"], c["ocf"], c["fecf"])) >= 2 or _nt_header(c["hdr"])


def _cls_frame(c):
    out = [c["kind"], f"rule {c['rule']}"]
    n = sum(x is not None for x in (c["insert_zone"], c["ocf"], c["fecf"]))
    if n == 3:
        out.append("insert zone + OCF + FECF")
    if n >= 2:
        out.append(">= 2 optional fields")
    if c["tfdz"] == "":
        out.append("empty data zone")
    if c["fecf"] and len(c["fecf"]) == 8:
        out.append("fecf 4")
    return out


# ---- mismatching managed parameters -------------------------------------------------------------------


def st_mismatch():
    return st.tuples(st_frame(), st.sampled_from(["fixed_len", "truncated_under_fixed", "rule_clash", "no_room", "fixed_with_var_props", "truncated_with_fixed_props"]), st.integers(1, 20)).map(
        lambda t: {"frame": t[0], "how": t[1], "delta": t[2]}
    )


def check_mismatch(m):
    H, F, D = _m()
    devs = []
    c = m["frame"]
    how = m["how"]
    fr, hc = build_frame(c)
    trunc = c["kind"] == "truncated"
    ft = frame_type_of(F, c)
    fr.set_frame_len_in_header()
    raw = bytes(fr.pack(truncated=trunc, frame_type=ft))
    n = len(raw)
    if how == "fixed_len":
        if c["kind"] != "fixed":
            return devs
        for d in (m["delta"], -min(m["delta"], n - 8)):
            if d == 0:
                continue
            props = properties_for(F, c, n, fixed_len=n + d)
            buf = raw + bytes(max(0, d))  # buffer long enough so that only the length disagreement can be the reason
            expect_raise(devs, "mismatch.fixed_len", F.TransferFrame.unpack, buf, F.FrameType.FIXED, props, accept=(D.UslpInvalidRawPacketOrFrameLen,))
    elif how == "truncated_under_fixed":
        if not trunc:
            return devs
        props = F.FixedFrameProperties(fixed_len=n, has_insert_zone=False, has_fecf=False)
        expect_raise(devs, "mismatch.truncated_under_fixed", F.TransferFrame.unpack, raw, F.FrameType.FIXED, props, accept=(D.UslpTruncatedFrameNotAllowed,))
    elif how == "rule_clash":
        if trunc:
            return devs
        iz = None if c["insert_zone"] is None else len(c["insert_zone"]) // 2
        fe = None if c["fecf"] is None else len(c["fecf"]) // 2
        kw = dict(has_insert_zone=iz is not None, has_fecf=fe is not None, insert_zone_len=iz, fecf_len=fe)
        if c["kind"] == "fixed":
            other_ft, props = F.FrameType.VARIABLE, F.VarFrameProperties(truncated_frame_len=n, **kw)
        else:
            other_ft, props = F.FrameType.FIXED, F.FixedFrameProperties(fixed_len=n, **kw)
        expect_raise(devs, f"mismatch.rule_clash.{c['kind']}", F.TransferFrame.unpack, raw, other_ft, props, accept=(D.UslpInvalidConstructionRules,))
    elif how == "no_room":
        # insert zone declared so large that nothing is left for the data field
        hdr_len = 4 if trunc else 7 + hc["vcf_len"]
        huge = n - hdr_len + m["delta"] - 1
        props = properties_for(F, c, n, has_insert_zone=True, insert_zone_len=huge)
        expect_raise(devs, "mismatch.no_room", F.TransferFrame.unpack, raw, ft, props, accept=(D.UslpInvalidRawPacketOrFrameLen,))
    elif how == "fixed_with_var_props":
        props = F.VarFrameProperties(has_insert_zone=False, has_fecf=False, truncated_frame_len=n)
        if trunc:
            return devs
        expect_raise(devs, "mismatch.fixed_with_var_props", F.TransferFrame.unpack, raw, F.FrameType.FIXED, props, accept=(ValueError,))
    elif how == "truncated_with_fixed_props":
        # a truncated frame needs the truncated frame length, which only the variable-frame parameter object carries
        if not trunc:
            return devs
        props = F.FixedFrameProperties(fixed_len=n, has_insert_zone=False, has_fecf=False)
        expect_raise(devs, "mismatch.truncated_with_fixed_props", F.TransferFrame.unpack, raw, F.FrameType.VARIABLE, props, accept=(ValueError,))
    return devs


def _cls_mismatch(m):
    c = m["frame"]
    applicable = {"fixed_len": c["kind"] == "fixed", "truncated_under_fixed": c["kind"] == "truncated", "rule_clash": c["kind"] != "truncated", "no_room": True, "fixed_with_var_props": c["kind"] != "truncated", "truncated_with_fixed_props": c["kind"] == "truncated"}[m["how"]]
    return [m["how"]] if applicable else ["not applicable"]


def enum_frame_limits(tier, shard, nshards, rng):
    """Frames whose total size is 65535 / 65536 octets (frame-length field 0xFFFE / 0xFFFF), reached through the sum of header,
    insert zone, data-field header, data zone, OCF and FECF."""
    cases = []
    for kind, rule, pointer in (("variable", 7, None), ("fixed", 0, 0x0102)):
        for vcf_len, iz, ocf, fecf in ((0, None, None, None), (3, "0102030405060708", "0a0b0c0d", "e1e2e3e4"), (7, "ff", None, "beef"), (0, None, "01020304", None)):
            for total in (65535, 65536):
                rest = 7 + vcf_len + (len(iz) // 2 if iz else 0) + 1 + (2 if pointer is not None else 0) + (4 if ocf else 0) + (len(fecf) // 2 if fecf else 0)
                n = total - rest
                h = 1 + (2 if pointer is not None else 0)
                if n + h > 65529 - h:  # the data field itself is capped by the library; such totals need more of the optional parts
                    continue
                hdr = {"scid": 0xA55A, "src_dest": 1, "vcid": 0x2A, "map_id": 9, "frame_len": 0, "bypass": 1, "prot_cmd": 0, "ocf_flag": int(ocf is not None), "vcf_len": vcf_len,
                       "vcf_count": (1 << (8 * vcf_len)) - 2 if vcf_len else 0, "tail": ""}
                cases.append({"kind": kind, "rule": rule, "upid": 5, "tfdz": (bytes([n & 0xFF, 0x5A]) * (n // 2 + 1))[:n].hex(), "pointer": pointer, "hdr": hdr, "insert_zone": iz, "ocf": ocf, "fecf": fecf})
    for i, c in enumerate(cases):
        if i % nshards == shard:
            yield c


CLAUSES = [
    Clause(
        id="C17.header",
        doc="primary header (7+n octets, VCF count length 0..7) and truncated header (4 octets): pack == reference, unpack returns the same values, header-type detection",
        strategy=st_header,
        check=check_header,
        nontrivial=_nt_header,
        classify=lambda c: [f"vcf len {c['vcf_len']}"] + (["tail"] if c["tail"] else []),
        required=[f"vcf len {n}" for n in range(8)] + ["tail"],
        n={"quick": 1500, "thorough": 15000},
    ),
    Clause(
        id="C17.header_oob",
        doc="spacecraft id > 16 bits, virtual channel > 6 bits, MAP id > 4 bits are refused with ValueError",
        strategy=st_header_oob,
        check=check_header_oob,
        classify=lambda c: [c["bad"]["field"]],
        required=["scid", "vcid", "map_id"],
        n={"quick": 300, "thorough": 2000},
    ),
    Clause(
        id="C17.frame",
        doc="frames: header | insert zone | TFDF header (rule, protocol id, optional pointer) | data zone | OCF | FECF == reference; len(), frame-length field after update; unpack with matching managed parameters returns the same parts",
        strategy=st_frame,
        check=check_frame,
        nontrivial=_nt_frame,
        classify=_cls_frame,
        required=["fixed", "variable", "truncated", "insert zone + OCF + FECF", "empty data zone", "fecf 4"] + [f"rule {r}" for r in range(8)],
        n={"quick": 1500, "thorough": 12000},
    ),
    Clause(
        id="C17.frame_limits",
        doc="frames of 65535 and 65536 octets in total (frame-length field 0xFFFE / 0xFFFF), the total reached through header + VCF count + insert zone + data field + OCF + FECF; same oracle as C17.frame",
        kind="enum",
        enum=enum_frame_limits,
        check=check_frame,
        classify=lambda c: [c["kind"], "total 65536" if 7 + c["hdr"]["vcf_len"] + (len(c["insert_zone"]) // 2 if c["insert_zone"] else 0) + 1 + (2 if c["pointer"] is not None else 0) + len(c["tfdz"]) // 2
                            + (4 if c["ocf"] else 0) + (len(c["fecf"]) // 2 if c["fecf"] else 0) == 65536 else "total 65535"],
        required=["fixed", "variable", "total 65536", "total 65535"],
        shards={"quick": 8, "thorough": 8},
    ),
    Clause(
        id="C17.mismatch",
        doc="mismatching managed parameters (fixed length, truncated under FIXED, rule / frame-type clash, zones leaving no data field, FIXED with variable properties) raise the USLP errors",
        strategy=st_mismatch,
        check=check_mismatch,
        nontrivial=lambda m: _cls_mismatch(m) != ["not applicable"],
        classify=_cls_mismatch,
        required=["fixed_len", "truncated_under_fixed", "rule_clash", "no_room", "fixed_with_var_props", "truncated_with_fixed_props"],
        n={"quick": 1500, "thorough": 10000},
    ),
]

from ..names_check import names_clause  # noqa: E402

if names_clause("C17") is not None:
    CLAUSES.append(names_clause("C17"))

from ..envcheck import env_clauses  # noqa: E402

CLAUSES.extend(env_clauses("C17", ("uslp",), n_quick=2, n_thorough=30))

PROPERTY = Property(
    id="C17",
    level="exploration",
    rule=(
        "headers: boundary-weighted scid/vcid/map/frame length, all flag combinations, VCF count length 0..7 with boundary-weighted counts; frames: 8 construction rules x 10 protocol ids x data "
        "zones 0..64 octets x optional insert zone (1..8) / OCF / FECF (2 or 4), fixed / variable / truncated; decoder configuration = matching and detectably mismatching managed parameters; "
        "oracle = reference header/frame encoder from 732.1-B-2; non-trivial = VCF length in {3,5,6,7} or ids straddling an octet boundary or >= 2 optional fields"
    ),
    clauses=CLAUSES,
    assumptions=[
        "vf/ref/uslp.py is the trusted statement of the layout (pinned by the octets asserted in tests/test_uslp.py)",
        "managed-parameter mismatches that still leave a positive data-field length are undetectable by any decoder and are not asserted",
        "vcf_count None and 0 are the same when the count length is 0; the pointer is present exactly for fixed-length rules in non-truncated frames",
    ],
)
