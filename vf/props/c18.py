"""C18 - reserved CFDP messages (proxy, directory, originating ID) round-trip via TLVs."""
from __future__ import annotations

from hypothesis import strategies as st

from .. import cfdp_model as M
from ..core import Clause, Dev, eq, expect_raise, true
from ..prop import Property
from ..ref import cfdp as R
from ..strategies import name, uint

KINDS = ("put_request", "put_response", "cancel", "closure", "mode", "orig_id", "list_req", "list_resp", "list_opts")
GETTERS = (
    "get_originating_transaction_id", "get_proxy_put_request_params", "get_proxy_put_response_params", "get_proxy_closure_requested",
    "get_proxy_transmission_mode", "get_dir_listing_request_params", "get_dir_listing_response_params", "get_dir_listing_options",
)
GETTER_OF = {
    "orig_id": "get_originating_transaction_id", "put_request": "get_proxy_put_request_params", "put_response": "get_proxy_put_response_params",
    "closure": "get_proxy_closure_requested", "mode": "get_proxy_transmission_mode", "list_req": "get_dir_listing_request_params",
    "list_resp": "get_dir_listing_response_params", "list_opts": "get_dir_listing_options", "cancel": None,
}
PROXY_TYPE = {"put_request": 0x00, "mode": 0x04, "put_response": 0x07, "cancel": 0x09, "closure": 0x0B}
DIR_TYPE = {"list_req": 0x10, "list_resp": 0x11, "list_opts": 0x15}


def st_two_names(budget):
    """Two octet strings whose lengths sum to at most ``budget`` (empty and maximal over-weighted)."""

    def second(a):
        rest = budget - len(a)
        return st.one_of(st.just(b""), _octets(rest), st.just(b"z" * rest)).map(lambda b: (a, b))

    first = st.one_of(st.just(b""), _octets(40), _octets(budget), st.sampled_from([budget, budget - 1, 101, 128]).map(lambda n: b"n" * n))
    return first.flatmap(second).map(lambda t: (t[0].hex(), t[1].hex()))


def _octets(maxlen):
    maxlen = max(0, maxlen)
    # names that contain the octets of the reserved-message marker itself
    marker = st.sampled_from([b"cfdp", b"/cfdp/log", b"a.cfdp", b"cfdpcfdp", b"\x00cfdp\x10"]).filter(lambda b: len(b) <= maxlen) if maxlen >= 4 else st.nothing()
    return st.one_of(name(maxlen).map(lambda s: s.encode()), st.binary(max_size=min(maxlen, 24)), marker)


def st_msg():
    put_request = st.sampled_from(M.WIDTHS).flatmap(
        lambda w: st.tuples(uint(8 * w), st_two_names(255 - 5 - (1 + w) - 2)).map(lambda t: {"k": "put_request", "dest_w": w, "dest_id": t[0], "src": t[1][0], "dst": t[1][1]})
    )
    put_response = st.fixed_dictionaries({"k": st.just("put_response"), "cc": st.sampled_from(M.CONDITION_CODES), "delivery": st.integers(0, 1), "status": st.integers(0, 3)})
    orig = st.tuples(st.sampled_from(M.WIDTHS), st.sampled_from(M.WIDTHS)).flatmap(
        lambda w: st.tuples(uint(8 * w[0]), uint(8 * w[1])).map(lambda v: {"k": "orig_id", "src_w": w[0], "seq_w": w[1], "src": v[0], "seq": v[1]})
    )
    list_req = st_two_names(255 - 5 - 2).map(lambda t: {"k": "list_req", "path": t[0], "file": t[1]})
    list_resp = st.tuples(st.booleans(), st_two_names(255 - 6 - 2)).map(lambda t: {"k": "list_resp", "ok": t[0], "path": t[1][0], "file": t[1][1]})
    return st.one_of(
        put_request, put_request, put_response, st.just({"k": "cancel"}),
        st.booleans().map(lambda b: {"k": "closure", "closure": b}), st.integers(0, 1).map(lambda m: {"k": "mode", "mode": m}),
        orig, orig, list_req, list_resp,
        st.tuples(st.booleans(), st.booleans()).map(lambda t: {"k": "list_opts", "recursive": t[0], "all": t[1]}),
    )


def build_msg(m):
    from spacepackets.cfdp import defs as cd
    from spacepackets.cfdp import tlv as T
    from spacepackets.cfdp.lv import CfdpLv
    from spacepackets.util import ByteFieldGenerator

    k = m["k"]
    if k == "put_request":
        return T.ProxyPutRequest(T.ProxyPutRequestParams(ByteFieldGenerator.from_int(m["dest_w"], m["dest_id"]), CfdpLv(bytes.fromhex(m["src"])), CfdpLv(bytes.fromhex(m["dst"]))))
    if k == "put_response":
        return T.ProxyPutResponse(T.ProxyPutResponseParams(cd.ConditionCode(m["cc"]), cd.DeliveryCode(m["delivery"]), cd.FileStatus(m["status"])))
    if k == "cancel":
        return T.ProxyCancelRequest()
    if k == "closure":
        return T.ProxyClosureRequest(m["closure"])
    if k == "mode":
        return T.ProxyTransmissionMode(cd.TransmissionMode(m["mode"]))
    if k == "orig_id":
        return T.OriginatingTransactionId(cd.TransactionId(ByteFieldGenerator.from_int(m["src_w"], m["src"]), ByteFieldGenerator.from_int(m["seq_w"], m["seq"])))
    dp = lambda: T.DirectoryParams(CfdpLv(bytes.fromhex(m["path"])), CfdpLv(bytes.fromhex(m["file"])))  # noqa: E731
    if k == "list_req":
        return T.DirectoryListingRequest(dp())
    if k == "list_resp":
        return T.DirectoryListingResponse(m["ok"], dp())
    if k == "list_opts":
        return T.DirectoryListingParameters(T.DirListingOptions(m["recursive"], m["all"]))
    raise ValueError(k)


def observe_params(k, r):
    """Plain-data view of what the matching getter returned."""
    if k == "put_request":
        return {"dest_id": int(r.dest_entity_id.value), "dest_w": int(r.dest_entity_id.byte_len), "src": bytes(r.source_file_name.value).hex(), "dst": bytes(r.dest_file_name.value).hex()}
    if k == "put_response":
        return {"cc": int(r.condition_code), "delivery": int(r.delivery_code), "status": int(r.file_status)}
    if k == "closure":
        return {"closure": int(r)}
    if k == "mode":
        return {"mode": int(r)}
    if k == "orig_id":
        return {"src": int(r.source_id.value), "src_w": int(r.source_id.byte_len), "seq": int(r.seq_num.value), "seq_w": int(r.seq_num.byte_len)}
    if k == "list_req":
        return {"path": bytes(r.dir_path.value).hex(), "file": bytes(r.dir_file_name.value).hex()}
    if k == "list_resp":
        return {"ok": bool(r[0]), "path": bytes(r[1].dir_path.value).hex(), "file": bytes(r[1].dir_file_name.value).hex()}
    if k == "list_opts":
        return {"recursive": int(r.recursive), "all": int(r.all)}
    raise ValueError(k)


def want_params(m):
    k = m["k"]
    o = {x: v for x, v in m.items() if x != "k"}
    if k == "closure":
        o["closure"] = int(o["closure"])
    if k == "list_opts":
        o = {"recursive": int(m["recursive"]), "all": int(m["all"])}
    if k == "list_resp":
        o["ok"] = bool(m["ok"])
    return o


def _text_of(hexname):
    """A name as text if its octets are UTF-8 (the builders that take strings / paths can then be used), else None."""
    try:
        return bytes.fromhex(hexname).decode("utf-8")
    except UnicodeDecodeError:
        return None


def check_names_as_text(devs, m, want):
    """Directory messages built through the documented string route (CfdpLv.from_str / DirectoryParams.from_strs): the octets
    are the UTF-8 encoding of exactly the given text - no normalisation, no stripping."""
    from spacepackets.cfdp import tlv as T
    from spacepackets.cfdp.lv import CfdpLv

    if m["k"] not in ("list_req", "list_resp"):
        return
    a, b = _text_of(m["path"]), _text_of(m["file"])
    if a is None or b is None or "\x00" in a + b:
        return
    dp = T.DirectoryParams.from_strs(a, b)
    msg = T.DirectoryListingRequest(dp) if m["k"] == "list_req" else T.DirectoryListingResponse(m["ok"], dp)
    eq(devs, "from_strs.pack", bytes(msg.pack()), want)
    # the path route: the name on the wire is str(path); the *_as_path views are Path(the decoded text)
    import pathlib

    pa, pb = pathlib.PurePosixPath(a), pathlib.PurePosixPath(b)
    if len(str(pa).encode()) + len(str(pb).encode()) <= 240:
        dpp = T.DirectoryParams.from_paths(pa, pb)
        eq(devs, "from_paths.lv_octets", (bytes(dpp.dir_path.pack()), bytes(dpp.dir_file_name.pack())), (R.lv(str(pa).encode("utf-8")), R.lv(str(pb).encode("utf-8"))))
    eq(devs, "as_path_views", (dp.dir_path_as_path, dp.dir_file_name_as_path), (pathlib.Path(a), pathlib.Path(b)))
    eq(devs, "from_str.lv", bytes(CfdpLv.from_str(a).pack()), R.lv(a.encode("utf-8")))
    eq(devs, "from_strs.as_str", (dp.dir_path_as_str, dp.dir_file_name_as_str), (a, b))


def check_msg(m):
    from spacepackets.cfdp import tlv as T

    devs = []
    k = m["k"]
    want = R.reserved_tlv(m)
    msg = build_msg(m)
    eq(devs, "enc.pack", bytes(msg.pack()), want)
    eq(devs, "enc.packet_len", msg.packet_len, len(want))
    eq(devs, "enc.tlv_type", int(msg.tlv_type), 0x02)
    routes = [
        ("unpack", lambda: T.MessageToUserTlv.unpack(want)),
        ("unpack_tail", lambda: T.MessageToUserTlv.unpack(want + b"\x02\x05cfdp\x00")),
        ("generic", lambda: msg.to_generic_msg_to_user_tlv()),
        ("holder", lambda: T.TlvHolder(T.CfdpTlv.unpack(want)).to_msg_to_user()),
    ]
    for tag, fn in routes:
        tlv = fn()
        eq(devs, f"{tag}.repack", bytes(tlv.pack()), want)
        true(devs, f"{tag}.is_reserved", tlv.is_reserved_cfdp_message() is True, "reserved message not recognised")
        r = tlv.to_reserved_msg_tlv()
        true(devs, f"{tag}.to_reserved_not_none", r is not None, "to_reserved_msg_tlv() returned None")
        if r is None:
            continue
        eq(devs, f"{tag}.reserved.repack", bytes(r.pack()), want)
        eq(devs, f"{tag}.msg_type", r.get_reserved_cfdp_message_type(), R.reserved_value(m)[0])
        eq(devs, f"{tag}.is_proxy", bool(r.is_cfdp_proxy_operation()), k in PROXY_TYPE)
        eq(devs, f"{tag}.is_dir", bool(r.is_directory_operation()), k in DIR_TYPE)
        eq(devs, f"{tag}.is_orig", bool(r.is_originating_transaction_id()), k == "orig_id")
        pt = r.get_cfdp_proxy_message_type()
        eq(devs, f"{tag}.proxy_type", None if pt is None else int(pt), PROXY_TYPE.get(k))
        dt = r.get_directory_operation_type()
        eq(devs, f"{tag}.dir_type", None if dt is None else int(dt), DIR_TYPE.get(k))
        for g in GETTERS:
            got = getattr(r, g)()
            if g == GETTER_OF[k]:
                true(devs, f"{tag}.{g}.not_none", got is not None, "matching getter returned None")
                if got is not None:
                    eq(devs, f"{tag}.{g}.params", observe_params(k, got), want_params(m))
            else:
                true(devs, f"{tag}.other_getter_none", got is None, f"{g}() returned {got!r} for a {k} message")
    check_names_as_text(devs, m, want)
    if k == "put_response":
        # the documented short cut: the response parameters taken over from the Finished PDU's parameters
        from spacepackets.cfdp import defs as cd1
        from spacepackets.cfdp.pdu import FinishedParams

        fp = FinishedParams(cd1.ConditionCode(m["cc"]), cd1.DeliveryCode(m["delivery"]), cd1.FileStatus(m["status"]))
        eq(devs, "put_response.from_finished_params.pack", bytes(T.ProxyPutResponse(T.ProxyPutResponseParams.from_finished_params(fp)).pack()), want)
    if k in ("put_request", "list_req", "list_resp", "put_response", "orig_id"):
        # forwarding / answering: messages built from the *decoded* parameter object, several times from the same object (a listing
        # request is answered with "the parameters of the corresponding request"); every one is the reference TLV, and the decoded
        # LVs still pack to their own octets afterwards
        got = getattr(T.MessageToUserTlv.unpack(want).to_reserved_msg_tlv(), GETTER_OF[k])()
        if got is not None:
            if k == "put_request":
                makers = [("put_request", lambda: T.ProxyPutRequest(got), m)]
            elif k == "put_response":
                makers = [("put_response", lambda: T.ProxyPutResponse(got), m)]
            elif k == "orig_id":
                makers = [("orig_id", lambda: T.OriginatingTransactionId(got), m)]
            else:
                dpar = got[1] if k == "list_resp" else got
                makers = [("list_req", lambda: T.DirectoryListingRequest(dpar), dict(m, k="list_req")),
                          ("list_resp_true", lambda: T.DirectoryListingResponse(True, dpar), dict(m, k="list_resp", ok=True)),
                          ("list_resp_false", lambda: T.DirectoryListingResponse(False, dpar), dict(m, k="list_resp", ok=False))]
            # a response carries one octet more than the request: only kinds whose value still fits a TLV (<= 255 octets) are built
            makers = [(nm, mk, mm) for nm, mk, mm in makers if 5 + len(R.reserved_value(mm)[1]) <= 255]
            for rnd in ("first", "second"):
                for nm, mk, mm in makers:
                    try:
                        obj = mk()
                    except Exception as e:  # noqa: BLE001 - a legal parameter object that decoded fine must be accepted
                        true(devs, f"from_decoded_params.{rnd}.{nm}.accepted", False, f"building from decoded parameters raised {e!r}")
                        continue
                    eq(devs, f"from_decoded_params.{rnd}.{nm}.pack", bytes(obj.pack()), R.reserved_tlv(mm))
            if k in ("put_request", "list_req", "list_resp"):
                hold = got[1] if k == "list_resp" else got
                lvs0 = [getattr(hold, a) for a in (("source_file_name", "dest_file_name") if k == "put_request" else ("dir_path", "dir_file_name"))]
                eq(devs, "from_decoded_params.lv_octets_afterwards", [bytes(x.pack()).hex() for x in lvs0],
                   [R.lv(bytes.fromhex(m[f])).hex() for f in (("src", "dst") if k == "put_request" else ("path", "file"))])
    if k in ("put_request", "list_req", "list_resp"):
        # the receiver fills in the names of an earlier decoded message (plain attributes of the decoded LV objects); decoding the same
        # octets afterwards gives the packed parameters again
        getter = GETTER_OF[k]
        first = getattr(T.MessageToUserTlv.unpack(want).to_reserved_msg_tlv(), getter)()
        true(devs, "decoded_again.first_decode_not_none", first is not None, "matching getter returned None")
        if first is None:
            return devs
        holder = first[1] if k == "list_resp" else first
        for lv_attr in (("source_file_name", "dest_file_name") if k == "put_request" else ("dir_path", "dir_file_name")):
            lv = getattr(holder, lv_attr)
            lv.value = b"filled-in"
            lv.value_len = 9
        again = getattr(T.MessageToUserTlv.unpack(want).to_reserved_msg_tlv(), getter)()
        true(devs, "decoded_again_after_earlier_result_was_filled_in.not_none", again is not None, "matching getter returned None")
        if again is None:
            return devs
        eq(devs, "decoded_again_after_earlier_result_was_filled_in.params", observe_params(k, again), want_params(m))
        again_holder = again[1] if k == "list_resp" else again
        lvs = [getattr(again_holder, a) for a in (("source_file_name", "dest_file_name") if k == "put_request" else ("dir_path", "dir_file_name"))]
        eq(devs, "decoded_again_after_earlier_result_was_filled_in.lv_octets", [bytes(x.pack()).hex() for x in lvs],
           [R.lv(bytes.fromhex(m[f])).hex() for f in (("src", "dst") if k == "put_request" else ("path", "file"))])
    if k in ("put_request", "orig_id"):
        # entity ids / sequence numbers whose value was assigned from an octet string that continues behind the field (the field keeps its width)
        from spacepackets.cfdp import defs as cd0
        from spacepackets.cfdp.lv import CfdpLv as Lv0
        from spacepackets.util import ByteFieldGenerator as G0

        def from_longer(w, v):
            f = G0.from_int(w, 0)
            f.value = v.to_bytes(w, "big") + b"\xde\xad\xbe"
            return f

        if k == "put_request":
            m2 = T.ProxyPutRequest(T.ProxyPutRequestParams(from_longer(m["dest_w"], m["dest_id"]), Lv0(bytes.fromhex(m["src"])), Lv0(bytes.fromhex(m["dst"]))))
        else:
            m2 = T.OriginatingTransactionId(cd0.TransactionId(from_longer(m["src_w"], m["src"]), from_longer(m["seq_w"], m["seq"])))
        eq(devs, "ids_assigned_from_longer_octet_strings.pack", bytes(m2.pack()), want)
    if k in ("list_req", "list_resp", "put_request"):
        # names given as paths: the name on the wire is str(path), exactly as the caller spelled it (pathlib keeps '..' components)
        import pathlib

        from spacepackets.cfdp.lv import CfdpLv as Lv1

        for spelled in ("/data/current/../archive", "a/../b", "../up", "dir/./file", "x//y", "/tmp/\u00fc/..", "plain.txt", "", "/data/images/", "./x", "C:\\dir\\file.bin", "dir\\sub/x"):
            pth = pathlib.PurePosixPath(spelled)
            eq(devs, "from_path.pure_path", bytes(Lv1.from_path(pth).pack()), R.lv(str(pth).encode("utf-8")), f"path {spelled!r}")
            eq(devs, "from_path.str", bytes(Lv1.from_path(spelled).pack()), R.lv(spelled.encode("utf-8")), f"string {spelled!r}")
            wpth = pathlib.PureWindowsPath(spelled)  # a name taken over from a ground system that spells paths the other way: str(path) it is
            eq(devs, "from_path.pure_windows_path", bytes(Lv1.from_path(wpth).pack()), R.lv(str(wpth).encode("utf-8")), f"windows path {spelled!r}")
            # DirectoryParams.from_paths with the names given as they are (plain strings, as the repository's own tests do)
            dps = T.DirectoryParams.from_paths(spelled, "f" + spelled)
            eq(devs, "from_paths.plain_strings", (bytes(dps.dir_path.pack()), bytes(dps.dir_file_name.pack())), (R.lv(spelled.encode("utf-8")), R.lv(("f" + spelled).encode("utf-8"))), f"strings {spelled!r}")
    if k == "put_request":
        from spacepackets.cfdp.lv import CfdpLv
        from spacepackets.util import ByteFieldGenerator

        a, b = _text_of(m["src"]), _text_of(m["dst"])
        if a is not None and b is not None:
            via_text = T.ProxyPutRequest(T.ProxyPutRequestParams(ByteFieldGenerator.from_int(m["dest_w"], m["dest_id"]), CfdpLv.from_str(a), CfdpLv.from_str(b)))
            eq(devs, "put_request.names_from_str.pack", bytes(via_text.pack()), want)
        p = T.MessageToUserTlv.unpack(want).to_reserved_msg_tlv().get_proxy_put_request_params()
        for side, attr in (("src", "source_file_as_str"), ("dst", "dest_file_as_str")):
            raw = bytes.fromhex(m[side])
            try:
                text = raw.decode()
            except UnicodeDecodeError:
                continue
            if p is not None:
                eq(devs, f"put_request.{attr}", getattr(p, attr), text)
                import pathlib as _pl

                eq(devs, f"put_request.{attr.replace('_as_str', '_as_path')}", getattr(p, attr.replace("_as_str", "_as_path")), _pl.Path(text))
    return devs


def _nt(m):
    k = m["k"]
    if k == "put_request":
        return m["dest_w"] != 1 or len(m["src"]) // 2 in (0,) or len(m["src"]) // 2 > 100 or len(m["dst"]) // 2 > 100 or m["dst"] == ""
    if k == "orig_id":
        return m["src_w"] != 1 or m["seq_w"] != 1
    if k in ("list_req", "list_resp"):
        return m["path"] == "" or m["file"] == "" or len(m["path"]) // 2 > 100 or len(m["file"]) // 2 > 100
    return True


def _cls(m):
    out = [m["k"]]
    k = m["k"]
    if k == "put_request":
        out.append(f"dest width {m['dest_w']}")
    if k == "orig_id":
        out.append(f"orig widths {m['src_w']}/{m['seq_w']}")
    for f in ("src", "dst", "path", "file"):
        if k in ("put_request", "list_req", "list_resp") and f in m:
            n = len(m[f]) // 2
            if n == 0:
                out.append("empty name")
            if n > 100:
                out.append("name > 100")
            if "63666470" in m[f]:
                out.append("name contains the marker octets")
    if k == "put_request" and (len(m["src"]) + len(m["dst"])) // 2 == 255 - 5 - (1 + m["dest_w"]) - 2:
        out.append("tlv full")
    if k == "list_req" and (len(m["path"]) + len(m["file"])) // 2 == 248:
        out.append("tlv full")
    return out


# ---- TransactionId equality -----------------------------------------------------------------------


def st_tid_pair():
    one = st.tuples(st.sampled_from(M.WIDTHS), st.sampled_from(M.WIDTHS)).flatmap(lambda w: st.tuples(st.just(w[0]), uint(8 * w[0]), st.just(w[1]), uint(8 * w[1])))

    def second(a):
        sw, sv, qw, qv = a
        alts = [st.just(a), one, st.just((sw, sv ^ 1, qw, qv)), st.just((sw, sv, qw, qv ^ 1))]
        for w2 in M.WIDTHS:
            if sv < (1 << (8 * w2)):
                alts.append(st.just((w2, sv, qw, qv)))
        return st.tuples(st.just(a), st.one_of(alts))

    return one.flatmap(second).map(lambda t: {"a": list(t[0]), "b": list(t[1])})


def check_tid(c):
    from spacepackets.cfdp.defs import TransactionId
    from spacepackets.util import ByteFieldGenerator

    devs = []
    mk = lambda t: TransactionId(ByteFieldGenerator.from_int(t[0], t[1]), ByteFieldGenerator.from_int(t[2], t[3]))  # noqa: E731
    a, b = mk(c["a"]), mk(c["b"])
    same = (c["a"][1], c["a"][3]) == (c["b"][1], c["b"][3])
    eq(devs, "tid.eq", bool(a == b), same)
    if same:
        true(devs, "tid.hash", hash(a) == hash(b), "equal transaction ids hash differently")
    return devs


# ---- non-reserved content --------------------------------------------------------------------------


def st_other():
    def not_reserved(b):
        if len(b) >= 5 and b[:4] == b"cfdp":
            return bytes([b[0] ^ 0x20]) + b[1:]
        return b

    return st.one_of(
        st.binary(max_size=255),
        st.binary(max_size=16),
        st.sampled_from([b"", b"c", b"cfd", b"cfdp", b"cfdP\x00", b"\xffcfdp", b"CFDP\x00\x00", b"cfd\xf0\x00", b"\xc3\x28\xa0\xa1\x00", b"\xff\xfe\xfd\xfc\xfb", b"cfd\xff\x00\x01",
                         b"\x80\x80\x80\x80\x80\x80", b" cfdp\x00"]),
        st.binary(min_size=5, max_size=40).map(lambda b: bytes([b[0] | 0x80]) + b[1:]),
    ).map(not_reserved).map(bytes.hex)


def check_other(h):
    from spacepackets.cfdp import tlv as T

    devs = []
    v = bytes.fromhex(h)
    for tag, tlv in (("ctor", T.MessageToUserTlv(v)), ("unpack", T.MessageToUserTlv.unpack(R.tlv(0x02, v)))):
        got = tlv.is_reserved_cfdp_message()
        true(devs, f"other.{tag}.false", got is False, f"is_reserved_cfdp_message() returned {got!r} for {v[:12].hex()}")
        true(devs, f"other.{tag}.to_reserved_none", tlv.to_reserved_msg_tlv() is None, "to_reserved_msg_tlv() returned an object for non-reserved content")
    return devs


def _cls_other(h):
    v = bytes.fromhex(h)
    out = []
    try:
        v[:4].decode()
        out.append("text prefix")
    except UnicodeDecodeError:
        out.append("non-utf8 prefix")
    if len(v) < 5:
        out.append("shorter than 5")
    return out


CLAUSES = [
    Clause(
        id="C18.messages",
        doc="nine reserved message kinds: pack == 'cfdp' | type | fields inside a message-to-user TLV; decode -> recognise -> read parameters returns the original (widths included); other getters None",
        strategy=st_msg,
        check=check_msg,
        nontrivial=_nt,
        classify=_cls,
        required=list(KINDS) + ["dest width 8", "dest width 2", "orig widths 8/8", "orig widths 1/8", "empty name", "name > 100", "tlv full", "name contains the marker octets"],
        n={"quick": 1500, "thorough": 12000},
    ),
    Clause(
        id="C18.transaction_id",
        doc="TransactionId == / hash agree with (source value, sequence value)",
        strategy=st_tid_pair,
        check=check_tid,
        n={"quick": 600, "thorough": 5000},
    ),
    Clause(
        id="C18.not_reserved",
        doc="is_reserved_cfdp_message() answers False and never raises for any other message-to-user content",
        strategy=st_other,
        check=check_other,
        nontrivial=lambda h: "non-utf8 prefix" in _cls_other(h) or len(h) >= 10,
        classify=_cls_other,
        required=["non-utf8 prefix", "text prefix", "shorter than 5"],
        n={"quick": 1500, "thorough": 12000},
    ),
]

from ..names_check import names_clause  # noqa: E402

if names_clause("C18") is not None:
    CLAUSES.append(names_clause("C18"))

from ..envcheck import env_clauses  # noqa: E402

CLAUSES.extend(env_clauses("C18", ("tlv",), n_quick=2, n_thorough=30, more_of="ReservedCfdpMessage.parsers", more=14))

PROPERTY = Property(
    id="C18",
    level="exploration",
    rule=(
        "nine message kinds: id widths 1/2/4/8 with boundary-weighted values, all enum values, two names per message with lengths from empty to the 255-octet TLV budget (sum constructed, "
        "not filtered); non-reserved contents: arbitrary octets incl. non-UTF-8, 'cfdp' exactly, near-misses; oracle = reference layouts of 727.0-B-5 6.1/6.2; non-trivial = id width != 1 or "
        "name empty / > 100 octets or non-text content"
    ),
    clauses=CLAUSES,
    assumptions=["vf/ref/cfdp.py reserved_value() is the trusted statement of the message layouts", "content that starts with 'cfdp' and has a type octet is by definition reserved and not in the 'other content' domain"],
)
