"""C02 - PUS-C telecommand encode/decode exact and mutually inverse."""
from __future__ import annotations

from hypothesis import strategies as st

from ..core import Clause, Dev, eq, expect_raise, pack_fresh, scribble, true
from ..prop import Property
from ..ref import ccsds as RC
from ..ref import pus as RP
from ..ref.crc import crc16_fast, crc_bytes
from ..strategies import data_field, expand_fill, uint

MAX_APP = 65529  # 6 + 5 + n + 2 - 7 <= 65535


def _m():
    from spacepackets.ccsds import spacepacket as sp
    from spacepackets.ecss import check_pus_crc
    from spacepackets.ecss import tc as tcm

    return sp, tcm, check_pus_crc


def obs_tc(tc) -> dict:
    return {
        "ver": int(tc.ccsds_version),
        "ptype": int(tc.sp_header.packet_type),
        "shf": int(bool(tc.sp_header.sec_header_flag)),
        "apid": int(tc.apid),
        "flags": int(tc.sp_header.seq_flags),
        "count": int(tc.seq_count),
        "dlen": int(tc.sp_header.data_len),
        "service": int(tc.service),
        "subservice": int(tc.subservice),
        "source_id": int(tc.source_id),
        "ack": int(tc.pus_tc_sec_header.ack_flags),
        "pus_version": int(tc.pus_tc_sec_header.pus_version),
        "app_data": bytes(tc.app_data).hex(),
        "packet_len": int(tc.packet_len),
    }


def crc_zero_prefix_tc(c, max_n=600):
    """Adjust a generated telecommand so that the CRC-16 over a structural prefix is exactly 0x0000 - over the 6-octet primary header
    (by choosing sequence count and application-data length) or over primary + secondary header (by choosing the source id).  A chunk-wise
    checksum implementation passes through such intermediate states; they are 2^-16 rare for random fields."""
    c = dict(c)
    if c.pop("_zero_at", 11) == 11:
        app = expand_fill(c["app_data"])
        hdr = RC.sp_header(0, 1, 1, c["apid"], 3, c["seq"], 5 + len(app) + 2 - 1)
        pre = hdr + bytes([0x20 | c["ack"], c["service"], c["subservice"]])
        c["source_id"] = crc16_fast(pre)
        return c
    for seq in range(c["seq"], c["seq"] + 16384):
        first4 = RC.sp_header(0, 1, 1, c["apid"], 3, seq % 16384, 0)[:4]
        dlen = crc16_fast(first4)
        n = dlen + 1 - 5 - 2
        if 0 <= n <= max_n:
            c["seq"] = seq % 16384
            c["app_data"] = {"len": n, "fill": c["service"], "step": 1}
            return c
    return c


def st_tc(big=(255, 256, 1000, 4096, 65528, 65529)):
    base = _st_tc_plain(big)
    zero = st.tuples(_st_tc_plain(()), st.sampled_from([6, 11])).map(lambda t: crc_zero_prefix_tc({**t[0], "_zero_at": t[1]}))
    return st.one_of(base, base, base, base, base, base, base, zero)


def _st_tc_plain(big=(255, 256, 1000, 4096, 65528, 65529)):
    return st.fixed_dictionaries(
        {
            "service": uint(8),
            "subservice": uint(8),
            "apid": uint(11),
            "seq": uint(14),
            "source_id": uint(16),
            "ack": st.integers(0, 15),
            "app_data": data_field(64, big),
        }
    )


def build_tc(tcm, c, app=None):
    app = expand_fill(c["app_data"]) if app is None else app
    return tcm.PusTc(service=c["service"], subservice=c["subservice"], apid=c["apid"], app_data=app, seq_count=c["seq"], source_id=c["source_id"], ack_flags=c["ack"])


def want_obs(c, app):
    return {
        "ver": 0, "ptype": 1, "shf": 1, "apid": c["apid"], "flags": 3, "count": c["seq"], "dlen": 5 + len(app) + 2 - 1,
        "service": c["service"], "subservice": c["subservice"], "source_id": c["source_id"], "ack": c["ack"], "pus_version": 2,
        "app_data": app.hex(), "packet_len": 13 + len(app),
    }


def check_tc(c):
    sp, tcm, check_pus_crc = _m()
    devs = []
    app = expand_fill(c["app_data"])
    want = RP.pus_tc(c["apid"], c["seq"], c["service"], c["subservice"], c["source_id"], c["ack"], app)
    tc = build_tc(tcm, c, app)
    eq(devs, "enc.fields", obs_tc(tc), want_obs(c, app))
    packed = tc.pack()
    eq(devs, "enc.bytes", bytes(packed), want)
    eq(devs, "enc.len_vs_packet_len", len(packed), tc.packet_len)
    eq(devs, "enc.len_field", int.from_bytes(packed[4:6], "big"), len(packed) - 7)
    true(devs, "enc.check_pus_crc", check_pus_crc(bytes(packed)) is True, "standalone CRC check rejects a freshly packed TC")
    eq(devs, "enc.crc16_attr", bytes(tc.crc16), want[-2:])
    eq(devs, "enc.repeat", bytes(tc.pack()), want)
    # decode
    for tag, buf in (("bytes", bytes(want)), ("bytearray", bytearray(want))):
        dec = tcm.PusTc.unpack(buf)
        eq(devs, f"dec.fields.{tag}", obs_tc(dec), want_obs(c, app))
        true(devs, f"dec.eq.{tag}", dec == tc and tc == dec, "unpack(pack(tc)) != tc")
        eq(devs, f"dec.repack.{tag}", bytes(dec.pack()), want)
        eq(devs, f"dec.crc16.{tag}", bytes(dec.crc16), want[-2:])
        eq(devs, f"dec.space_packet.{tag}", bytes(dec.to_space_packet().pack()), want)
    # generic space-packet view
    eq(devs, "space_packet.bytes", bytes(tc.to_space_packet().pack()), want)
    # calc_crc alone on a fresh object
    tc2 = build_tc(tcm, c, app)
    tc2.calc_crc()
    eq(devs, "calc_crc", bytes(tc2.crc16), want[-2:])
    # from_sp_header route (the packet adopts and completes the caller's header)
    hdr = sp.SpacePacketHeader(packet_type=sp.PacketType.TC, apid=c["apid"], seq_count=c["seq"], data_len=0)
    tc3 = tcm.PusTc.from_sp_header(hdr, service=c["service"], subservice=c["subservice"], app_data=app, source_id=c["source_id"], ack_flags=c["ack"])
    eq(devs, "from_sp_header.bytes", bytes(tc3.pack()), want)
    true(devs, "from_sp_header.eq", tc3 == tc, "from_sp_header object != constructor object")
    # from_composite_fields with a consistent header
    hdr2 = sp.SpacePacketHeader.unpack(want)
    sec = tcm.PusTcDataFieldHeader(service=c["service"], subservice=c["subservice"], source_id=c["source_id"], ack_flags=c["ack"])
    tc4 = tcm.PusTc.from_composite_fields(hdr2, sec, app)
    eq(devs, "from_composite.bytes", bytes(tc4.pack()), want)
    # secondary header alone
    eq(devs, "sec.pack", bytes(sec.pack()), want[6:11])
    sec2 = tcm.PusTcDataFieldHeader.unpack(want[6:])
    eq(devs, "sec.unpack", (sec2.service, sec2.subservice, sec2.source_id, sec2.ack_flags), (c["service"], c["subservice"], c["source_id"], c["ack"]))
    if len(app) <= 4096:
        devs.extend(_tc_histories(sp, tcm, check_pus_crc, c, app, want, tc))
    return devs


def _tc_histories(sp, tcm, check_pus_crc, c, app, want, tc):
    """The same statement along short call histories: views before packing, caller-owned mutable buffers, objects that were
    decoded, fields changed through the public header objects - octets and views must not depend on the order of calls."""
    devs = []
    from ..core import copies_equal

    copies_equal(devs, "hist.copy_of_never_packed", build_tc(tcm, c, app), lambda o: bytes(o.pack()), want)
    copies_equal(devs, "hist.copy_of_decoded", tcm.PusTc.unpack(want), lambda o: bytes(o.pack()), want)
    pack_fresh(devs, "hist.pack_returns_fresh_buffer", tc.pack, want)
    # equality does not depend on whether either side was ever packed
    true(devs, "hist.eq_decoded_vs_never_packed", bool(tcm.PusTc.unpack(want) == build_tc(tcm, c, app)) and bool(build_tc(tcm, c, app) == tcm.PusTc.unpack(want)),
         "decoded telecommand != telecommand with identical fields that was never packed")
    # an operation on ANOTHER telecommand was refused just before (out-of-range field, non-octet data): the next valid one is unaffected
    for bad_kw in ({"source_id": 0x10000}, {"service": 256}, {"app_data": "not octets"}):
        try:
            kw = dict(service=c["service"], subservice=c["subservice"], apid=c["apid"], seq_count=c["seq"], app_data=app, source_id=c["source_id"], ack_flags=c["ack"])
            kw.update(bad_kw)
            bad = tcm.PusTc(**kw)
            for op in (bad.calc_crc, bad.to_space_packet, bad.pack):
                try:
                    op()
                except Exception:  # noqa: BLE001 - the refusal itself is not under test here
                    pass
        except Exception:  # noqa: BLE001
            pass
        fresh = build_tc(tcm, c, app)
        tag = "after_refused_" + next(iter(bad_kw))
        eq(devs, f"hist.{tag}.view", bytes(fresh.to_space_packet().pack()), want)
        fresh2 = build_tc(tcm, c, app)
        fresh2.calc_crc()
        eq(devs, f"hist.{tag}.calc_crc", bytes(fresh2.crc16), want[-2:])
        eq(devs, f"hist.{tag}.pack", bytes(build_tc(tcm, c, app).pack()), want)
    # positional construction in the documented parameter order (service, subservice, apid, app_data, seq_count, source_id, ack_flags)
    eq(devs, "hist.positional.bytes", bytes(tcm.PusTc(c["service"], c["subservice"], c["apid"], app, c["seq"], c["source_id"], c["ack"]).pack()), want)
    eq(devs, "hist.positional.sec_header", bytes(tcm.PusTcDataFieldHeader(c["service"], c["subservice"], c["source_id"], c["ack"]).pack()), want[6:11])
    # documented defaults (APID 0, count 0, source id 0, all four ack flags, no application data): two such telecommands are independent
    d1 = tcm.PusTc(service=c["service"], subservice=c["subservice"])
    d2 = tcm.PusTc(service=c["service"], subservice=c["subservice"])
    wdef = RP.pus_tc(0, 0, c["service"], c["subservice"], 0, 0b1111, b"")
    eq(devs, "hist.defaults.bytes", bytes(d1.pack()), wdef)
    d1.to_space_packet()
    d1.app_data = bytearray(b"\x01\x02")
    d1.pack()
    eq(devs, "hist.defaults.second_object_unaffected", bytes(d2.pack()), wdef)
    eq(devs, "hist.defaults.third_object_unaffected", bytes(tcm.PusTc(service=c["service"], subservice=c["subservice"]).pack()), wdef)
    d3 = tcm.PusTc(service=c["service"], subservice=c["subservice"])
    d3.app_data += b"\x07\x08"
    eq(devs, "hist.defaults.app_data_appended_in_place.bytes", bytes(d3.pack()), RP.pus_tc(0, 0, c["service"], c["subservice"], 0, 0b1111, b"\x07\x08"))
    eq(devs, "hist.defaults.app_data_appended_in_place.later_object", bytes(tcm.PusTc(service=c["service"], subservice=c["subservice"]).pack()), wdef)
    w_apid = RP.pus_tc((c["apid"] + 1) % 2048, c["seq"], c["service"], c["subservice"], c["source_id"], c["ack"], app)
    for how, o_ch in (("packed", build_tc(tcm, c, app)), ("decoded", tcm.PusTc.unpack(want))):
        o_ch.pack()
        o_ch.apid = (c["apid"] + 1) % 2048
        d_new = tcm.PusTc.unpack(w_apid)
        true(devs, f"hist.eq_right_after_setter.{how}", bool(o_ch == d_new) and bool(d_new == o_ch), "changed telecommand != telecommand decoded from the octets of its new values")
    # composed from a primary header of the other packet type: refused, and composing from the right header afterwards gives the telecommand
    from ..core import expect_raise as _er

    tm_hdr = sp.SpacePacketHeader(packet_type=sp.PacketType.TM, apid=c["apid"], seq_count=c["seq"], data_len=5 + len(app) + 2 - 1, sec_header_flag=True)
    _er(devs, "hist.composed_from_tm_header", lambda: tcm.PusTc.from_composite_fields(tm_hdr, tcm.PusTcDataFieldHeader(c["service"], c["subservice"], c["source_id"], c["ack"]), app), accept=(ValueError,))
    tc_hdr = sp.SpacePacketHeader(packet_type=sp.PacketType.TC, apid=c["apid"], seq_count=c["seq"], data_len=5 + len(app) + 2 - 1, sec_header_flag=True)
    eq(devs, "hist.composed_after_refused_composition", bytes(tcm.PusTc.from_composite_fields(tc_hdr, tcm.PusTcDataFieldHeader(c["service"], c["subservice"], c["source_id"], c["ack"]), app).pack()), want)
    # a (large) caller-owned application data buffer edited in place between two computations of the trailer through the view / calc_crc
    for size in (max(len(app), 1), 2048, 4099):
        big = bytearray((i * 7 + size) & 0xFF for i in range(size))
        ob = build_tc(tcm, c, big)
        w_big = RP.pus_tc(c["apid"], c["seq"], c["service"], c["subservice"], c["source_id"], c["ack"], bytes(big))
        eq(devs, f"hist.in_place_edit_between_views.first_view.{size}", bytes(ob.to_space_packet().pack()), w_big)
        big[size // 2] ^= 0xFF
        w_big2 = RP.pus_tc(c["apid"], c["seq"], c["service"], c["subservice"], c["source_id"], c["ack"], bytes(big))
        eq(devs, f"hist.in_place_edit_between_views.second_view.{size}", bytes(ob.to_space_packet().pack()), w_big2)
        ob.calc_crc()
        eq(devs, f"hist.in_place_edit_between_views.calc_crc_then_pack_without_recalc.{size}", bytes(ob.pack(recalc_crc=False)), w_big2)
    # printing is pure: str() / repr() of a never-packed telecommand change nothing about what is packed after a later field change
    for printed in (False, True):
        o = build_tc(tcm, c, app)
        if printed:
            str(o), repr(o), str(o.pus_tc_sec_header), repr(o.sp_header)
        o.apid = (c["apid"] + 1) % 2048
        w2 = RP.pus_tc((c["apid"] + 1) % 2048, c["seq"], c["service"], c["subservice"], c["source_id"], c["ack"], app)
        eq(devs, f"hist.never_packed_{'printed_then_' if printed else ''}changed.pack_without_recalc", bytes(o.pack(recalc_crc=False)), w2)
    # caller-owned bytearray as application data, space-packet view taken (twice) before packing
    caller = bytearray(app)
    t = build_tc(tcm, c, caller)
    eq(devs, "hist.bytearray_app.view1", bytes(t.to_space_packet().pack()), want)
    eq(devs, "hist.bytearray_app.view2", bytes(t.to_space_packet().pack()), want)
    eq(devs, "hist.bytearray_app.pack_after_views", bytes(t.pack()), want)
    eq(devs, "hist.bytearray_app.packet_len_after_views", t.packet_len, len(want))
    eq(devs, "hist.bytearray_app.caller_buffer_untouched", bytes(caller), app)
    eq(devs, "hist.bytearray_app.app_data_after_views", bytes(t.app_data), app)
    # decoded from a caller-owned buffer that is reused afterwards; view, then re-pack
    buf = bytearray(want + b"\x18\x00")
    d = tcm.PusTc.unpack(buf)
    scribble(buf)
    eq(devs, "hist.decoded.crc16_as_received", bytes(d.crc16), want[-2:])
    eq(devs, "hist.decoded.fields_after_caller_reused_buffer", obs_tc(d), want_obs(c, app))
    eq(devs, "hist.decoded.view", bytes(d.to_space_packet().pack()), want)
    eq(devs, "hist.decoded.view_again", bytes(d.to_space_packet().pack()), want)
    eq(devs, "hist.decoded.repack_after_views", bytes(d.pack()), want)
    eq(devs, "hist.decoded.crc16", bytes(d.crc16), want[-2:])
    # a packed (or decoded) telecommand is changed through its public header objects; the view is taken before the next pack
    o_service, o_sub, o_ack, o_seq, o_apid = (c["service"] + 1) % 256, (c["subservice"] + 3) % 256, c["ack"] ^ 0x5, (c["seq"] + 1) % 16384, (c["apid"] + 1) % 2048
    want2 = RP.pus_tc(o_apid, o_seq, o_service, o_sub, c["source_id"], o_ack, app)
    for tag, obj in (("packed", build_tc(tcm, c, app)), ("decoded", tcm.PusTc.unpack(want))):
        obj.pack()
        obj.pus_tc_sec_header.service = o_service
        obj.pus_tc_sec_header.subservice = o_sub
        obj.pus_tc_sec_header.ack_flags = o_ack
        obj.sp_header.seq_count = o_seq
        obj.sp_header.apid = o_apid
        view = bytes(obj.to_space_packet().pack())
        eq(devs, f"hist.header_objects_changed.{tag}.view_before_pack", view, want2)
        true(devs, f"hist.header_objects_changed.{tag}.view_crc", check_pus_crc(view) is True, "space-packet view carries a stale CRC")
        eq(devs, f"hist.header_objects_changed.{tag}.pack", bytes(obj.pack()), want2)
        obj.calc_crc()
        eq(devs, f"hist.header_objects_changed.{tag}.calc_crc", bytes(obj.crc16), want2[-2:])
    return devs


def _nt(c):
    n = c["app_data"]["len"] if isinstance(c["app_data"], dict) else len(c["app_data"]) // 2
    return c["source_id"] != 0 or c["ack"] != 0xF or c["apid"] > 0xFF or c["seq"] > 0xFF or n not in (0, 3)


def _cls(c):
    n = c["app_data"]["len"] if isinstance(c["app_data"], dict) else len(c["app_data"]) // 2
    out = []
    if c["source_id"]:
        out.append("source id != 0")
    if c["ack"] != 15:
        out.append("ack != 0xf")
    if c["apid"] >= 0x400:
        out.append("apid >= 0x400")
    if n == 0:
        out.append("empty app data")
    if n >= 65528:
        out.append("app data at limit")
    elif n > 255:
        out.append("app data > 255")
    return out


# ---- too long ------------------------------------------------------------------------------


def st_toolong():
    return st.fixed_dictionaries(
        {"service": uint(8), "subservice": uint(8), "apid": uint(11), "seq": uint(14), "source_id": uint(16), "ack": st.integers(0, 15),
         "n": st.sampled_from([65530, 65531, 65536, 70000]), "fill": st.integers(0, 255)}
    )


def check_toolong(c):
    sp, tcm, _ = _m()
    devs = []
    app = bytes([c["fill"]]) * c["n"]

    def mk():
        return build_tc(tcm, c, app).pack()

    expect_raise(devs, "toolong.ctor", mk)
    return devs


# ---- declared length too small -------------------------------------------------------------

_T7 = None


def _t7_solutions():
    """Headers (5 octets) whose CRC makes a declared total of 7 self-consistent: crc(hdr[:5]) == 00 2x."""
    global _T7
    if _T7 is None:
        sols = []
        for apid in range(0, 2048, 1):
            w0 = (0x1800 | apid).to_bytes(2, "big")
            for seq in range(0, 16384, 37):
                pre = w0 + (0xC000 | seq).to_bytes(2, "big") + b"\x00"
                c = crc16_fast(pre)
                if c >> 8 == 0 and (c & 0xF0) == 0x20:
                    sols.append((apid, seq))
            if len(sols) >= 24:
                break
        _T7 = sols
    return _T7


def craft_short_tc(apid, seq, total, body: bytes, neighbours: bytes, patch: bool, bits=(0, 1, 1, 3)):
    """A buffer starting with a TC primary header that declares ``total`` (7..12) octets.  ``bits`` = (version, type, secondary-header
    flag, sequence flags) of the primary header: the rejection must not depend on any of them."""
    if total <= 8:
        bits = (0, 1, 1, 3)  # the self-referential solutions below are computed for the standard TC bits
    buf = bytearray(RC.sp_header(bits[0], bits[1], bits[2], apid, bits[3], seq, total - 7))
    buf += bytes([0x20 | (body[0] & 0x0F)]) + body[1:]
    buf = buf[: max(total, 6)]
    while len(buf) < total:
        buf.append(0x55)
    if patch:
        if total >= 9:
            buf[total - 2 : total] = crc_bytes(bytes(buf[: total - 2]))
        elif total == 8:
            # octet 6 is both CRC high byte and version nibble: search the sequence count
            for d in range(16384):
                s = (seq + d) % 16384
                buf[2:4] = (0xC000 | s).to_bytes(2, "big")
                c = crc16_fast(bytes(buf[:6]))
                if (c >> 12) == 2:
                    buf[6:8] = c.to_bytes(2, "big")
                    break
        else:  # total == 7
            sols = _t7_solutions()
            a, s = sols[(apid + seq) % len(sols)]
            buf = bytearray(RC.sp_header(0, 1, 1, a, 3, s, 0))
            c = crc16_fast(bytes(buf[:5]))
            buf[5:7] = c.to_bytes(2, "big")
            buf = buf[:7]
    return bytes(buf) + neighbours


def st_short():
    return st.fixed_dictionaries(
        {
            "apid": uint(11),
            "seq": uint(14),
            "total": st.integers(7, 12),
            "body": st.binary(min_size=8, max_size=8).map(bytes.hex),
            "neighbours": st.one_of(st.just(""), st.binary(max_size=16).map(bytes.hex), st.just(RP.pus_tc(1, 1, 17, 1, 0, 15, b"").hex())),
            "patch": st.sampled_from([True, True, True, False]),
            "bits": st.one_of(st.just([0, 1, 1, 3]), st.tuples(st.sampled_from([0, 0, 1, 7]), st.integers(0, 1), st.integers(0, 1), st.integers(0, 3)).map(list)),
        }
    )


def check_short(c):
    sp, tcm, check_pus_crc = _m()
    from ..excs import allowed

    devs = []
    buf = craft_short_tc(c["apid"], c["seq"], c["total"], bytes.fromhex(c["body"]), bytes.fromhex(c["neighbours"]), c["patch"], tuple(c.get("bits", (0, 1, 1, 3))))
    declared = int.from_bytes(buf[4:6], "big") + 7
    if declared >= 13:
        raise AssertionError("generator bug: declared total not short")
    expect_raise(devs, "short_declared.unpack", tcm.PusTc.unpack, buf, accept=allowed())
    return devs


CLAUSES = [
    Clause(
        id="C02.codec",
        doc="pack == reference octets; lengths; CRC; unpack observation-equal, ==, re-pack; space-packet view; alt constructors",
        strategy=st_tc,
        check=check_tc,
        nontrivial=_nt,
        classify=_cls,
        required=["source id != 0", "ack != 0xf", "apid >= 0x400", "empty app data", "app data > 255"],
        n={"quick": 1200, "thorough": 8000},
    ),
    Clause(
        id="C02.limit",
        doc="application data at the 65529-octet limit round-trips",
        strategy=lambda: st_tc(big=(65528, 65529)).filter(lambda c: isinstance(c["app_data"], dict)),
        check=check_tc,
        nontrivial=_nt,
        classify=_cls,
        required=["app data at limit"],
        n={"quick": 12, "thorough": 60},
        shards={"quick": 1, "thorough": 4},
    ),
    Clause(
        id="C02.toolong",
        doc="application data that does not fit a space packet is refused with ValueError",
        strategy=st_toolong,
        check=check_toolong,
        n={"quick": 20, "thorough": 100},
        shards={"quick": 1, "thorough": 2},
    ),
    Clause(
        id="C02.short_declared",
        doc="a declared total of 7..12 octets (< header+secondary header+CRC) is rejected even with a CRC that matches the declared extent",
        strategy=st_short,
        check=check_short,
        nontrivial=lambda c: c["patch"],
        classify=lambda c: [f"declared {c['total']}", "crc patched" if c["patch"] else "crc random", "neighbours" if c["neighbours"] else "exact buffer"]
        + (["secondary-header flag cleared"] if c.get("bits", [0, 1, 1, 3])[2] == 0 and c["total"] >= 9 else []) + (["type bit cleared"] if c.get("bits", [0, 1, 1, 3])[1] == 0 and c["total"] >= 9 else []),
        required=[f"declared {t}" for t in range(7, 13)] + ["crc patched", "neighbours", "exact buffer", "secondary-header flag cleared", "type bit cleared"],
        n={"quick": 800, "thorough": 6000},
    ),
]

from ..envcheck import env_clauses  # noqa: E402

CLAUSES.extend(env_clauses("C02", ("pus",), n_quick=2, n_thorough=30))

PROPERTY = Property(
    id="C02",
    level="exploration",
    rule=(
        "field tuples boundary-weighted (uint strategy), app data 0..64 octets mostly and {255,256,1000,4096,65528,65529} sometimes; "
        "oracle = reference PUS-C TC encoder (vf/ref/pus.py) with its own CRC; rejection clause = crafted buffers with a too-small "
        "declared length and a CRC patched over the declared extent; non-trivial = source id != 0 or ack != 0xf or apid > 0xff or "
        "seq > 0xff or app-data length not in {0,3}"
    ),
    clauses=CLAUSES,
    assumptions=[
        "vf/ref/pus.py + vf/ref/crc.py are the trusted statement of the format (pinned to the ping TC vector)",
        "pack(recalc_crc=False) is a documented opt-out and never used",
        "from_composite_fields is only used with a header whose length the caller made consistent",
    ],
)
