"""C20 - unsigned byte fields keep value, width and big-endian bytes coherent."""
from __future__ import annotations

from hypothesis import strategies as st

from ..core import Clause, Dev, eq, expect_raise, scribble, true
from ..prop import Property
from ..strategies import uint

WIDTHS = (1, 2, 4, 8)


def _lib():
    from spacepackets import util

    return util


def _views(devs, f, v, w, tag):
    """All views of field ``f`` must describe (v, w)."""
    want = v.to_bytes(w, "big")
    got = f.as_bytes
    eq(devs, f"{tag}.as_bytes", bytes(got), want)
    true(devs, f"{tag}.as_bytes_type", isinstance(got, (bytes, bytearray)), f"type {type(got)}")
    if isinstance(got, bytearray):
        # what as_bytes hands out is the caller's: using it as a scratch buffer (in-place operations) does not change the field
        scribble(got)
        eq(devs, f"{tag}.as_bytes_after_caller_modified_the_returned_object", bytes(f.as_bytes), want)
    eq(devs, f"{tag}.int", int(f), v)
    eq(devs, f"{tag}.value", f.value, v)
    eq(devs, f"{tag}.len", len(f), w)
    eq(devs, f"{tag}.byte_len", f.byte_len, w)
    if w > 0:
        eq(devs, f"{tag}.hex_str", f.hex_str, "0x" + want.hex())
    true(devs, f"{tag}.eq_bytes", f == want, "field != its own octets")
    # comparison with raw octets is by octets: the same number in another width, or another number, is not equal
    if w:
        for other in (b"\x00" + want, want[1:], bytes([want[0] ^ 0x80]) + want[1:], want + b"\x00"):
            if other != want:
                true(devs, f"{tag}.ne_other_octets", not (f == other), f"field ({v}, width {w}) == octets {other.hex()}")


def _ctors(u, v, w):
    out = [("ctor", lambda: u.UnsignedByteField(v, w))]
    if w in WIDTHS:
        cls = {1: u.ByteFieldU8, 2: u.ByteFieldU16, 4: u.ByteFieldU32, 8: u.ByteFieldU64}[w]
        out.append(("typed", lambda: cls(v)))
        out.append(("gen_int", lambda: u.ByteFieldGenerator.from_int(w, v)))
    else:
        out.append(("empty", lambda: u.ByteFieldEmpty()))
    if v == 0:
        out.append(("empty_with_width", lambda: u.ByteFieldEmpty(w)))  # the zero placeholder of a given width
    return out


def check_value(case):
    u = _lib()
    w, v, tail = case["w"], case["v"], bytes.fromhex(case.get("tail", ""))
    devs = []
    raw = v.to_bytes(w, "big")
    fields = []
    other = (v + 1) % (1 << (8 * w)) if w else 0
    for tag, mk in _ctors(u, v, w):
        f = mk()
        fields.append(f)
        _views(devs, f, v, w, tag)
        if w:
            # a field handed out earlier may be re-assigned by its owner; asking for (v, w) again must still give (v, w)
            g = mk()
            g.value = other
            _views(devs, g, other, w, tag + ".reassigned")
            _views(devs, mk(), v, w, tag + ".again_after_earlier_result_was_reassigned")
            _views(devs, f, v, w, tag + ".first_result_after_sibling_was_reassigned")
    ref = fields[0]
    if w in WIDTHS:
        cls = {1: u.ByteFieldU8, 2: u.ByteFieldU16, 4: u.ByteFieldU32, 8: u.ByteFieldU64}[w]
        typed_from = {1: "from_u8_bytes", 2: "from_u16_bytes", 4: "from_u32_bytes", 8: "from_u64_bytes"}[w]
        back = [
            ("from_bytes", u.UnsignedByteField.from_bytes(raw)),
            ("gen_bytes", u.ByteFieldGenerator.from_bytes(w, raw)),
            ("gen_bytes_tail", u.ByteFieldGenerator.from_bytes(w, raw + tail)),
            ("typed_bytes_tail", getattr(cls, typed_from)(raw + tail)),
            ("from_as_bytes", u.UnsignedByteField.from_bytes(bytes(ref.as_bytes))),
        ]
        for tag, g in back:
            _views(devs, g, v, w, tag)
            fields.append(g)
        # decoding from a caller-owned buffer must not keep a reference to it
        buf = bytearray(raw + tail)
        g = u.ByteFieldGenerator.from_bytes(w, buf)
        scribble(buf)
        _views(devs, g, v, w, "gen_bytes.after_caller_reused_buffer")
    from ..core import copies_equal

    copies_equal(devs, "copy", ref, lambda o: (int(o.value), int(o.byte_len), bytes(o.as_bytes).hex(), hash(o) == hash(ref), bool(o == ref)), (v, w, raw.hex(), True, True))
    for i, g in enumerate(fields[1:]):
        true(devs, "eq_same", ref == g and g == ref, f"equal (value,width) fields compare unequal (#{i + 1})")
        true(devs, "hash_same", hash(ref) == hash(g), f"equal fields hash differently (#{i + 1})")
    return devs


def enum_small(tier, shard, nshards, rng):
    yield {"w": 0, "v": 0}
    for v in range(256):
        if v % nshards == shard:
            yield {"w": 1, "v": v, "tail": bytes([rng.randrange(256)]).hex() if v % 3 == 0 else ""}
    for v in range(65536):
        if v % nshards == shard:
            yield {"w": 2, "v": v, "tail": bytes([rng.randrange(256) for _ in range(v % 4)]).hex()}


def _interesting(case):
    w, v = case["w"], case["v"]
    if w in (4, 8):
        return True
    if w == 0:
        return False
    return bool(v >> (8 * w - 1)) or (v & (v + 1)) == 0


def st_wide():
    return st.sampled_from([4, 8]).flatmap(
        lambda w: st.fixed_dictionaries({"w": st.just(w), "v": uint(8 * w), "tail": st.binary(max_size=9).map(bytes.hex)})
    )


# ---- equality / hash ---------------------------------------------------------------------------


def st_pairs():
    one = st.sampled_from([0, 1, 2, 4, 8]).flatmap(lambda w: st.tuples(st.just(w), uint(8 * w)))

    def second(a):
        w, v = a
        # same, same value other width, neighbour value, or unrelated
        alts = [st.just(a), one]
        for w2 in (1, 2, 4, 8):
            if v < (1 << (8 * w2)):
                alts.append(st.just((w2, v)))
        if w:
            alts.append(st.just((w, v ^ 1)))
            alts.append(st.just((w, v ^ (1 << (8 * w - 1)))))
        if w == 8:
            # distinct values whose Python hashes coincide (ints hash modulo 2^61 - 1): equality must still tell them apart
            m = (1 << 61) - 1
            alts.append(st.sampled_from([1, 2, 7]).map(lambda k: (8, (v + k * m) % (1 << 64))))
            alts.append(st.sampled_from([1, 2, 7]).map(lambda k: (8, (v - k * m) % (1 << 64))))
        return st.tuples(st.just(a), st.one_of(alts))

    return one.flatmap(second).map(lambda p: {"a": list(p[0]), "b": list(p[1])})


def check_pair(case):
    u = _lib()
    (w1, v1), (w2, v2) = case["a"], case["b"]
    devs = []
    a = u.UnsignedByteField(v1, w1)
    b = u.ByteFieldGenerator.from_int(w2, v2) if w2 in WIDTHS else u.UnsignedByteField(v2, w2)
    same = (w1, v1) == (w2, v2)
    eq(devs, "eq_iff", bool(a == b), same, f"{case}")
    eq(devs, "eq_sym", bool(b == a), same, f"{case}")
    eq(devs, "ne", bool(a != b), not same, f"{case}")
    if same:
        true(devs, "hash_eq", hash(a) == hash(b), "equal fields must hash equal")
        true(devs, "dict_key", {a: 1}.get(b) == 1, "equal field not found as dict key")
    else:
        true(devs, "dict_key_distinct", len({a: 1, b: 2}) == 2, "distinct fields collapsed in dict")
    return devs


# ---- refusals ----------------------------------------------------------------------------------


def st_refuse():
    big = st.integers(1, 1 << 70)
    kinds = [
        st.fixed_dictionaries({"k": st.just("neg"), "w": st.sampled_from([0, 1, 2, 4, 8]), "d": st.one_of(st.just(1), big)}),
        st.fixed_dictionaries({"k": st.just("big"), "w": st.sampled_from([0, 1, 2, 4, 8]), "d": st.one_of(st.just(0), st.just(1), big)}),
        st.fixed_dictionaries({"k": st.just("width"), "w": st.one_of(st.sampled_from([3, 5, 6, 7, 9, 16, -1]), st.integers(9, 64)), "v": st.integers(0, 255)}),
        st.fixed_dictionaries({"k": st.just("short"), "w": st.sampled_from([1, 2, 4, 8]), "cut": st.integers(1, 8), "fill": st.integers(0, 255)}),
        st.fixed_dictionaries({"k": st.just("rawlen"), "n": st.sampled_from([3, 5, 6, 7, 9, 10, 16]), "fill": st.integers(0, 255)}),
    ]
    return st.one_of(kinds)


def check_refuse(case):
    u = _lib()
    devs = []
    k = case["k"]
    typed = {1: u.ByteFieldU8, 2: u.ByteFieldU16, 4: u.ByteFieldU32, 8: u.ByteFieldU64}
    if k in ("neg", "big"):
        w = case["w"]
        v = -case["d"] if k == "neg" else (1 << (8 * w)) + case["d"]
        expect_raise(devs, f"{k}.ctor", u.UnsignedByteField, v, w)
        if w in typed:
            expect_raise(devs, f"{k}.typed", typed[w], v)
            expect_raise(devs, f"{k}.gen", u.ByteFieldGenerator.from_int, w, v)
            f = u.UnsignedByteField(0, w)
            old = (int(f), bytes(f.as_bytes))

            def assign():
                f.value = v
                return f

            expect_raise(devs, f"{k}.assign", assign)
            true(devs, f"{k}.assign_keeps_state", (int(f), bytes(f.as_bytes)) == old, "refused assignment changed the field")
    elif k == "width":
        w, v = case["w"], case["v"]
        expect_raise(devs, "width.ctor", u.UnsignedByteField, v, w)
        expect_raise(devs, "width.gen_int", u.ByteFieldGenerator.from_int, w, v)
        expect_raise(devs, "width.gen_bytes", u.ByteFieldGenerator.from_bytes, w, bytes(max(w, 0) + 2))
    elif k == "short":
        w = case["w"]
        n = max(0, w - case["cut"])
        raw = bytes([case["fill"]]) * n
        expect_raise(devs, "short.gen_bytes", u.ByteFieldGenerator.from_bytes, w, raw)
        name = {1: "from_u8_bytes", 2: "from_u16_bytes", 4: "from_u32_bytes", 8: "from_u64_bytes"}[w]
        expect_raise(devs, "short.typed", getattr(typed[w], name), raw)
        f = u.UnsignedByteField(1, w)

        def assign():
            f.value = raw
            return f

        expect_raise(devs, "short.assign", assign)
        true(devs, "short.assign_keeps_state", int(f) == 1 and bytes(f.as_bytes) == (1).to_bytes(w, "big"), "refused assignment changed the field")
    elif k == "rawlen":
        raw = bytes([case["fill"]]) * case["n"]
        expect_raise(devs, "rawlen.from_bytes", u.UnsignedByteField.from_bytes, raw)
    return devs


# ---- assignment histories ----------------------------------------------------------------------


def st_assign():
    def steps(w):
        by_int = st.tuples(st.just("int"), uint(8 * w))
        by_raw = st.tuples(st.sampled_from(["bytes", "bytearray"]), st.binary(min_size=w, max_size=w + 3).map(bytes.hex))
        # the width re-declared through the documented byte_len setter, followed by an integer assignment (the same number if it fits, else a drawn one)
        by_width = st.tuples(st.just("width"), st.tuples(st.sampled_from([1, 2, 4, 8]), uint(64), st.sampled_from([0, 1, 2])).map(list))
        return st.fixed_dictionaries({"w": st.just(w), "v0": uint(8 * w), "steps": st.lists(st.one_of(by_int, by_raw, by_width).map(list), min_size=1, max_size=6)})

    return st.sampled_from([1, 2, 4, 8]).flatmap(steps)


def check_assign(case):
    u = _lib()
    w = case["w"]
    devs = []
    f = u.UnsignedByteField(case["v0"], w)
    v = case["v0"]
    for i, (kind, arg) in enumerate(case["steps"]):
        if kind == "width":
            new_w, drawn, mode = arg
            hash(f)  # (a hash taken before the width changes must not be remembered)
            f.byte_len = new_w
            w = new_w
            if v <= (1 << (8 * new_w)) - 1:
                # value and width views, and with them equality and hash, follow the new width at once
                g0 = u.UnsignedByteField(v, new_w)
                true(devs, "after_width_set.eq_fresh", f == g0 and g0 == f, f"step {i}: field != fresh field of the re-declared width")
                true(devs, "after_width_set.hash_fresh", hash(f) == hash(g0), f"step {i}: hash differs from a fresh field of the re-declared width")
                true(devs, "after_width_set.dict_lookup", {f: 1}.get(g0) == 1 and {g0: 1}.get(f) == 1, f"step {i}: dictionary lookup by an equal field fails")
            mask = (1 << (8 * new_w)) - 1
            if mode == 0 and v <= mask:
                pass  # the same number is assigned again under the new width
            elif mode == 1:
                v = min(v, mask)  # the largest value that fits if the old one does not
            else:
                v = drawn & mask
            f.value = v
        elif kind == "int":
            arg = arg & ((1 << (8 * w)) - 1)  # (the width may have been re-declared by an earlier step)
            f.value = arg
            v = arg
        else:
            raw = bytes.fromhex(arg)
            raw = raw + bytes(max(0, w - len(raw)))  # (at least the current width)
            given = raw if kind == "bytes" else bytearray(raw)
            f.value = given
            v = int.from_bytes(raw[:w], "big")
            scribble(given)  # the caller goes on using its own buffer
        # first thing after the assignment, before any other view is read: comparison with the expected octets
        true(devs, "after_assign.eq_octets_first", f == v.to_bytes(w, "big"), f"step {i}: field != octets of the value just assigned (before any other view was read)")
        _views(devs, f, v, w, "after_assign")
        g = u.UnsignedByteField(v, w)
        true(devs, "after_assign.eq_fresh", f == g and hash(f) == hash(g), f"step {i}: not equal to a fresh field")
        if devs:
            break
    return devs


# ---- conversion helpers ------------------------------------------------------------------------


def st_conv():
    def for_n(n):
        bits = 8 * n
        if n == 0:
            return st.fixed_dictionaries({"n": st.just(0), "v": st.just(0), "signed": st.booleans()})
        uns = st.fixed_dictionaries({"n": st.just(n), "signed": st.just(False), "v": st.one_of(uint(bits), st.sampled_from([-1, 1 << bits, (1 << bits) + 1, -(1 << bits)]))})
        sg = st.fixed_dictionaries(
            {
                "n": st.just(n),
                "signed": st.just(True),
                "v": st.one_of(
                    uint(bits - 1),
                    uint(bits - 1).map(lambda x: -x),
                    st.sampled_from([-(1 << (bits - 1)), 1 << (bits - 1), (1 << (bits - 1)) - 1, -(1 << (bits - 1)) + 1, -(1 << (bits - 1)) - 1, 1 << bits]),
                ),
            }
        )
        return st.one_of(uns, sg)

    return st.sampled_from([0, 1, 2, 4, 8]).flatmap(for_n)


def check_conv(case):
    u = _lib()
    n, v, signed = case["n"], case["v"], case["signed"]
    devs = []
    fn = u.IntByteConversion.to_signed if signed else u.IntByteConversion.to_unsigned
    try:
        want = v.to_bytes(n, "big", signed=signed)
    except OverflowError:
        want = None
    documented_ok = (abs(v) <= (1 << (8 * n - 1)) - 1) if (signed and n) else (0 <= v < (1 << (8 * n)))
    try:
        got = fn(n, v)
    except Exception as e:  # noqa: BLE001
        # refusing is fine outside the accepted range; inside it is a deviation
        if documented_ok:
            devs.append(Dev("conv.refused_in_range", f"{fn.__name__}({n},{v}) raised {type(e).__name__}: {e}"))
        return devs
    if want is None:
        devs.append(Dev("conv.wrong_octets_out_of_range", f"{fn.__name__}({n},{v}) returned {bytes(got).hex()} for an unrepresentable value"))
    else:
        eq(devs, "conv.octets", bytes(got), want, f"{fn.__name__}({n},{v})")
    return devs


def enum_conv8(tier, shard, nshards, rng):
    for v in range(-130, 260):
        if v % nshards == shard:
            yield {"n": 1, "v": v, "signed": True}
            yield {"n": 1, "v": v, "signed": False}
    for v in range(-33000, 66000, 1 if tier == "thorough" else 7):
        if v % nshards == shard:
            yield {"n": 2, "v": v, "signed": True}
            yield {"n": 2, "v": v, "signed": False}


def _cls_wv(case):
    w, v = case["w"], case["v"]
    out = [f"width {w}"]
    if w and v >> (8 * w - 1):
        out.append("top bit set")
    if w and v == (1 << (8 * w)) - 1:
        out.append("all ones")
    return out


CLAUSES = [
    Clause(
        id="C20.small.exhaustive",
        doc="widths 0,1,2: every value through constructor, typed classes, generator; every 1/2-octet string back",
        kind="enum",
        enum=enum_small,
        check=check_value,
        nontrivial=_interesting,
        classify=_cls_wv,
        required=["width 0", "width 1", "width 2", "top bit set"],
        rule="all (w,v) for w in {0,1,2}",
        shards={"quick": 4, "thorough": 16},
        exhaustive_note="all 1+256+65536 (width,value) pairs for widths 0,1,2 and all 1- and 2-octet strings",
    ),
    Clause(
        id="C20.wide",
        doc="widths 4 and 8 over the full range (boundary-weighted), octets -> field incl. longer buffers",
        strategy=st_wide,
        check=check_value,
        nontrivial=_interesting,
        classify=_cls_wv,
        required=["width 4", "width 8", "top bit set"],
        n={"quick": 3000, "thorough": 60000},
    ),
    Clause(
        id="C20.eq_hash",
        doc="a == b iff (value,width) equal; equal fields hash equal",
        strategy=st_pairs,
        check=check_pair,
        nontrivial=lambda c: c["a"] != c["b"] or c["a"][0] in (4, 8),
        classify=lambda c: ["equal pair" if c["a"] == c["b"] else ("same value other width" if c["a"][1] == c["b"][1] else "different value")]
        + (["distinct values with colliding hash"] if c["a"] != c["b"] and c["a"][0] == c["b"][0] == 8 and hash(c["a"][1]) == hash(c["b"][1]) else []),
        required=["equal pair", "same value other width", "different value", "distinct values with colliding hash"],
        n={"quick": 2000, "thorough": 20000},
    ),
    Clause(
        id="C20.refuse",
        doc="negative / too large / unsupported width / too-short octets => ValueError",
        strategy=st_refuse,
        check=check_refuse,
        classify=lambda c: [c["k"]],
        required=["neg", "big", "width", "short", "rawlen"],
        n={"quick": 1500, "thorough": 10000},
    ),
    Clause(
        id="C20.assign",
        doc="assigning by integer or octets keeps all views in step",
        strategy=st_assign,
        check=check_assign,
        nontrivial=lambda c: len(c["steps"]) >= 2 or c["w"] in (4, 8),
        classify=lambda c: [f"assign {k}" for k in sorted({s[0] for s in c["steps"]})],
        required=["assign int", "assign bytes", "assign bytearray"],
        n={"quick": 1500, "thorough": 10000},
    ),
    Clause(
        id="C20.conv",
        doc="to_unsigned / to_signed agree with big-endian two's complement whenever they return",
        strategy=st_conv,
        check=check_conv,
        nontrivial=lambda c: c["n"] > 0,
        classify=lambda c: [("signed" if c["signed"] else "unsigned") + f" n={c['n']}"] + (["negative"] if c["v"] < 0 else []),
        required=["signed n=8", "unsigned n=8", "negative"],
        n={"quick": 3000, "thorough": 30000},
    ),
    Clause(
        id="C20.conv.exhaustive",
        doc="1- and 2-octet conversions over and just beyond the whole range",
        kind="enum",
        enum=enum_conv8,
        check=check_conv,
        shards={"quick": 2, "thorough": 8},
        exhaustive_note="to_signed/to_unsigned(1, v) for v in -130..259; (2, v) for v in -33000..65999 (thorough: every v; quick: every 7th)",
    ),
]

PROPERTY = Property(
    id="C20",
    level="exploration",
    rule=(
        "widths 0,1,2 enumerated completely; widths 4/8 drawn boundary-weighted (uint strategy) over the full range; "
        "non-trivial = width in {4,8}, or top bit set, or value 2^k-1 (for pairs: unequal pair or wide); "
        "distinct = distinct canonical-JSON case"
    ),
    clauses=CLAUSES,
    assumptions=[
        "oracle: Python int.to_bytes / int.from_bytes (big-endian), independent of struct-based library code",
        "empty field: from-bytes direction is documented to raise ValueError and hex view is undefined; not asserted",
        "conversion helpers outside their accepted range are only required not to return wrong octets",
    ],
)
