"""C19 - sequence counters count modulo 2^width, stay in range and survive restarts."""
from __future__ import annotations

import os
import shutil
import tempfile
from pathlib import Path

from hypothesis import strategies as st

from ..core import Clause, Dev, HistorySpec, eq, expect_raise, true
from ..prop import Property


def _m():
    from spacepackets import seqcount
    from spacepackets.ccsds.spacepacket import PacketSeqCtrl, SequenceFlags

    return seqcount, PacketSeqCtrl, SequenceFlags


# ---- in-memory provider: complete histories ---------------------------------------------------------


def check_memory(c):
    seqcount, PacketSeqCtrl, SequenceFlags = _m()
    devs = []
    w, api, calls = c["width"], c["api"], c["calls"]
    p = seqcount.SeqCountProvider(w)
    mod = 1 << w
    for n in range(calls):
        v = next(p) if api == "next" else p.get_and_increment()
        if v != n % mod:
            devs.append(Dev("memory.sequence", f"width {w}, call {n}: got {v}, want {n % mod}"))
            break
        if not (0 <= v < mod):
            devs.append(Dev("memory.range", f"width {w}, call {n}: {v} outside [0, {mod - 1}]"))
            break
        if w <= 14 and (n < 3 or n % mod in (0, mod - 1)):
            PacketSeqCtrl(SequenceFlags.UNSEGMENTED, v)  # must be acceptable as a sequence count
    return devs, calls


def check_memory_near_wrap(c):
    """Wide in-memory counters cannot be run through 2^width calls; the provider's public ``count`` attribute positions it just below the wrap."""
    seqcount, PacketSeqCtrl, SequenceFlags = _m()
    devs = []
    w = c["width"]
    mod = 1 << w
    p = seqcount.SeqCountProvider(w)
    eq(devs, "memory.near_wrap.first_use", next(p), 0)
    p.count = (mod - c["below"]) % mod
    expect = p.count
    for n in range(c["calls"]):
        v = next(p) if (n + c["below"]) % 2 else p.get_and_increment()
        if v != expect or not (0 <= v < mod):
            devs.append(Dev("memory.near_wrap.sequence", f"width {w}, positioned at 2^{w}-{c['below']}: call {n} returned {v}, want {expect}"))
            break
        expect = (expect + 1) % mod
    return devs, c["calls"]


def enum_memory_near_wrap(tier, shard, nshards, rng):
    i = 0
    for w in list(range(1, 65)) + [65, 70, 72, 80, 96, 100, 128, 213, 256, 512, 1024]:
        for below in (1, 2, 3):
            i += 1
            if i % nshards == shard and below <= (1 << w):
                yield {"width": w, "below": below, "calls": 7}


def check_memory_set_width(c):
    """The documented ``max_bit_width`` setter: set before first use (any width) or widened in mid-sequence; from then on the
    provider counts modulo 2^(new width)."""
    seqcount, PacketSeqCtrl, SequenceFlags = _m()
    devs = []
    p = seqcount.SeqCountProvider(c["w0"])
    expect = 0
    width = c["w0"]
    for n in range(c["calls"]):
        if n == c["at"]:
            p.max_bit_width = c["w1"]
            width = c["w1"]
            eq(devs, "memory.set_width.getter", p.max_bit_width, c["w1"])
        v = next(p)
        if v != expect:
            devs.append(Dev("memory.set_width.sequence", f"constructed with width {c['w0']}, set to {c['w1']} before call {c['at']}: call {n} returned {v}, want {expect}"))
            break
        expect = (expect + 1) % (1 << width)
    return devs, c["calls"]


def enum_memory_set_width(tier, shard, nshards, rng):
    i = 0
    for w0 in (1, 2, 3, 5, 8, 14):
        for w1 in (1, 2, 3, 4, 6, 9, 14):
            if w1 == w0:
                continue
            ats = [0] if w1 < w0 else [0, 1, (1 << w0) - 1, (1 << w0), (1 << w0) + 1]
            for at in ats:
                i += 1
                if i % nshards == shard and max(w0, w1) <= (14 if tier == "thorough" else 9):
                    yield {"w0": w0, "w1": w1, "at": at, "calls": at + (1 << w1) + 3}


def enum_memory(tier, shard, nshards, rng):
    widths = range(1, 17) if tier == "thorough" else list(range(1, 13)) + [14]
    i = 0
    for w in widths:
        for api in ("next", "get_and_increment"):
            i += 1
            if i % nshards == shard:
                yield {"width": w, "api": api, "calls": (1 << w) + 3}


# ---- file-backed provider: rule-based machine with restart points ------------------------------------


class FileState:
    def __init__(self, params):
        seqcount, PacketSeqCtrl, SequenceFlags = _m()
        self.seqcount = seqcount
        self.PSC = lambda v: PacketSeqCtrl(SequenceFlags.UNSEGMENTED, v)
        self.dir = tempfile.mkdtemp(prefix="verif-c19-")
        self.path = Path(self.dir) / "seqcnt.txt"
        self.width = params["width"]
        self.pus = params.get("pus", False) and self.width == 14
        self.mod = 1 << self.width
        start = params.get("start")
        self.model = 0
        if start is not None:
            self.model = start % self.mod
            self.path.write_text(f"{self.model}\n")
        # a second counter file (another APID / channel) the live provider can be pointed at through its public file_name attribute
        self.other_path = Path(self.dir) / "seqcnt_other.txt"
        self.other_model = 7 % self.mod
        self.other_path.write_text(f"{self.other_model}\n")
        self.p = self.new_provider()
        self.restarts_right_after_wrap = False
        self.last_returned = None

    def new_provider(self):
        if self.pus:
            return self.seqcount.PusFileSeqCountProvider(self.path)
        return self.seqcount.FileSeqCountProvider(self.width, self.path)

    def close(self):
        shutil.rmtree(self.dir, ignore_errors=True)


class FileMachine(HistorySpec):
    max_steps = 60

    def init_strategy(self):
        def for_width(w):
            mod = 1 << w
            start = st.one_of(st.none(), st.none(), st.sampled_from(sorted({0, 1, mod - 1, max(0, mod - 2), max(0, mod - 4)})), st.integers(0, mod - 1))
            return st.fixed_dictionaries({"width": st.just(w), "start": start, "pus": st.booleans()})

        return st.sampled_from([1, 2, 3, 3, 4, 5, 6, 14]).flatmap(for_width)

    def ops(self):
        return {
            "next": st.just(0), "next_b": st.just(0), "get_and_increment": st.just(0), "burst": st.integers(2, 12),
            "current": st.just(0), "reinstantiate": st.just(0), "inspect_file": st.just(0), "repoint": st.just(0),
        }

    def start(self, params):
        return FileState(params)

    def teardown(self, s):
        s.close()

    def _one(self, s, devs, via_next):
        v = next(s.p) if via_next else s.p.get_and_increment()
        eq(devs, "file.sequence", v, s.model, f"width {s.width}")
        true(devs, "file.range", 0 <= v < s.mod, f"{v} outside [0, {s.mod - 1}]")
        if s.width <= 14 and not devs:
            s.PSC(v)
        s.last_returned = v
        s.model = (s.model + 1) % s.mod

    def step(self, s, name, a):
        devs = []
        if name in ("next", "next_b"):
            self._one(s, devs, True)
        elif name == "get_and_increment":
            self._one(s, devs, False)
        elif name == "burst":
            for _ in range(a):
                self._one(s, devs, True)
                if devs:
                    break
        elif name == "current":
            eq(devs, "file.current", s.p.current(), s.model, "current() must read the next value without advancing")
            eq(devs, "file.current_again", s.p.current(), s.model, "current() advanced the counter")
        elif name == "repoint":
            # the live provider is pointed at the other counter file: it continues that file's sequence, the first file keeps its count
            s.path, s.other_path = s.other_path, s.path
            s.model, s.other_model = s.other_model, s.model
            s.p.file_name = s.path
            line = s.other_path.read_text().split("\n")[0]
            eq(devs, "file.repoint.left_file_keeps_its_count", line, str(s.other_model))
        elif name == "reinstantiate":
            s.p = s.new_provider()  # the restart point: a fresh object on the same file
        return devs

    def invariant(self, s):
        """Between calls the file's first line holds a valid count: the value the next call returns."""
        devs = []
        try:
            line = s.path.read_text().split("\n")[0]
        except FileNotFoundError:
            return [Dev("file.missing", "count file does not exist between calls")]
        ok = line.isascii() and line.isdigit()
        true(devs, "file.first_line_numeric", ok, f"first line {line!r} is not a count")
        if ok:
            eq(devs, "file.first_line_value", int(line), s.model, "file content between calls")
        return devs


def _file_nt(trace):
    return _file_classes(trace) != []


def _file_classes(trace):
    p = trace["init"]
    mod = 1 << p["width"]
    n = (p["start"] or 0) % mod
    other = 7 % mod
    out = set()
    calls = 0
    just_wrapped = False
    for name, a in trace["steps"]:
        if name == "repoint":
            n, other = other, n
            just_wrapped = False
            if calls:
                out.add("repointed after use")
            continue
        k = {"next": 1, "next_b": 1, "get_and_increment": 1, "burst": a}.get(name, 0)
        if k:
            for _ in range(k):
                just_wrapped = n == mod - 1
                n = (n + 1) % mod
                calls += 1
                if just_wrapped:
                    out.add("wraps")
        elif name == "reinstantiate":
            out.add("restart")
            if calls == 0:
                out.add("restart before first use")
            if just_wrapped:
                out.add("restart right after wrap")
    if p["start"] is None:
        out.add("fresh file")
    else:
        out.add("pre-seeded file")
    if p["width"] == 14:
        out.add("width 14")
    return sorted(out - {"fresh file", "pre-seeded file"}) + sorted(out & {"fresh file", "pre-seeded file"})


# ---- long file-backed run with restarts -----------------------------------------------------------------


def check_file_long(c):
    s = FileState({"width": c["width"], "start": c.get("start"), "pus": c.get("pus", False)})
    devs = []
    try:
        restarts = set(c["restarts"])
        m = FileMachine()
        for n in range(c["calls"]):
            if n in restarts:
                s.p = s.new_provider()
            m._one(s, devs, n % 2 == 0)
            if devs:
                return [Dev(d.sub, f"call {n}: {d.detail}") for d in devs]
            if n % 97 == 0 or n in restarts or s.model in (0, 1, 2, 10, 100):
                devs = m.invariant(s)
                # current() - on the running provider and on one created right now - reads the next value without advancing
                eq(devs, "file.current", s.p.current(), s.model, "current() between calls")
                eq(devs, "file.current_fresh_instance", s.new_provider().current(), s.model, "current() of a provider created at this point")
                if devs:
                    return [Dev(d.sub, f"after call {n}: {d.detail}") for d in devs]
        return devs, c["calls"]
    finally:
        s.close()


def enum_file_long(tier, shard, nshards, rng):
    cases = []
    for w in (1, 2, 3, 5, 8):
        calls = (1 << w) * 2 + 3
        cases.append({"width": w, "start": None, "calls": calls, "restarts": sorted(rng.sample(range(calls), min(calls, 6)))})
        cases.append({"width": w, "start": None, "calls": calls, "restarts": list(range(calls))})
    cases.append({"width": 14, "start": 16380, "pus": True, "calls": 12, "restarts": [0, 3, 4, 5]})
    # wrap-arounds at which the decimal representation of the count shrinks by one, two, three and four characters
    for w in (4, 7, 10, 14, 16):
        cases.append({"width": w, "start": (1 << w) - 3, "calls": 16, "restarts": [2, 3, 4, 9]})
    # wide counters (transaction / frame counters of 24..64 bit): the wrap is reached by starting just below it; beyond 2^53 integers
    # are no longer exactly representable in floating point
    for w in (17, 24, 31, 32, 33, 48, 52, 53, 54, 55, 56, 60, 63, 64, 65, 69, 70, 72, 80, 96, 100, 128, 200, 213, 256, 512, 1024):  # "all widths": decimal counts of 20 .. 309 digits
        cases.append({"width": w, "start": (1 << w) - 3, "calls": 9, "restarts": [1, 3, 4]})
    if tier == "thorough":
        calls = (1 << 14) + 3
        for k in range(4):
            cases.append({"width": 14, "start": None, "pus": k % 2 == 0, "calls": calls, "restarts": sorted(rng.sample(range(calls), 40) + [0, 16383, 16384, 16385])})
        cases.append({"width": 10, "start": None, "calls": 3 * 1024 + 3, "restarts": list(range(0, 3 * 1024, 7))})
    for i, c in enumerate(cases):
        if i % nshards == shard:
            yield c


# ---- rejection of bad files -----------------------------------------------------------------------------


BAD_TEXTS = ["", "\n", "\n5\n", "abc\n", "-1\n", "-0\n", "+3\n", "1.0\n", "0x1\n", "1e1\n", "1 2\n", "one\n", "--\n", "1,0\n", "1_0\n", "1_2_3\n", "0_0\n", " 1\n", "\t1\n", "1a\n", "1-\n", "0b1\n", "1.\n", "1;\n"]


def st_bad():
    def for_width(w):
        mod = 1 << w
        bad_text = st.one_of(
            st.sampled_from(BAD_TEXTS).map(lambda s: {"text": s}),
            st.one_of(st.just(mod), st.just(mod + 1), st.integers(mod, mod * 4 + 10), st.just(mod * 10**9 + 7)).map(lambda v: {"text": f"{v}\n"}),
            st.sampled_from(["ff0a", "c3280a", "80", "fffe300a", "e2820a"]).map(lambda h: {"hex": h}),
        )
        return st.fixed_dictionaries({"k": st.just("content"), "width": st.just(w), "bad": bad_text, "calls_before": st.integers(0, 3)})

    missing = st.fixed_dictionaries({"k": st.just("missing"), "width": st.sampled_from([1, 3, 14]), "calls_before": st.integers(0, 3)})
    return st.one_of(st.sampled_from([1, 2, 3, 8, 14]).flatmap(for_width), st.sampled_from([1, 2, 3, 8, 14, 16, 32, 53, 54, 56, 63, 64, 70, 72, 100, 128, 256, 1024]).flatmap(for_width), missing)


def check_bad(c):
    s = FileState({"width": c["width"], "start": None})
    devs = []
    try:
        for _ in range(c["calls_before"]):
            next(s.p)
        if c["k"] == "missing":
            os.remove(s.path)
            expect_raise(devs, "reject.missing.next", lambda: next(s.p), accept=(FileNotFoundError,))
            expect_raise(devs, "reject.missing.current", s.p.current, accept=(FileNotFoundError,))
            return devs
        if "text" in c["bad"]:
            s.path.write_text(c["bad"]["text"])
        else:
            s.path.write_bytes(bytes.fromhex(c["bad"]["hex"]))
        before = s.path.read_bytes()
        expect_raise(devs, "reject.content.next", lambda: next(s.p))
        expect_raise(devs, "reject.content.current", s.p.current)
        fresh = s.new_provider()
        expect_raise(devs, "reject.content.fresh_instance", lambda: next(fresh))
        true(devs, "reject.content.file_untouched", s.path.read_bytes() == before, "a refused file was modified")
        return devs
    finally:
        s.close()


def _cls_bad(c):
    if c["k"] == "missing":
        return ["missing file"]
    b = c["bad"]
    if "hex" in b:
        return ["invalid utf-8"]
    t = b["text"].strip()
    if t == "":
        return ["empty"]
    if t.lstrip("-").isdigit() and t.startswith("-"):
        return ["negative"]
    if t.isdigit():
        return ["out of range"]
    return ["non-numeric"]


def enum_file_forms(tier, shard, nshards, rng):
    i = 0
    for w in (3, 14, 32):
        for value in (0, 5, (1 << w) - 1):
            for pad in (1, 3, 10, 25):
                i += 1
                if i % nshards == shard:
                    yield {"k": "zero_padded", "width": w, "value": value, "pad": pad}
        for k in ("symlink_to_existing", "symlink_to_missing"):
            i += 1
            if i % nshards == shard:
                yield {"k": k, "width": w}


def check_file_forms(c):
    seqcount, PacketSeqCtrl, SequenceFlags = _m()
    devs = []
    d = tempfile.mkdtemp(prefix="verif-c19f-")
    try:
        w = c["width"]
        mod = 1 << w
        path = Path(d) / "count.txt"
        if c["k"] == "zero_padded":
            # a count written with leading zeros (another tool, a fixed-width format) is that count
            path.write_text("0" * c["pad"] + str(c["value"]) + "\n")
            p = seqcount.FileSeqCountProvider(w, path)
            eq(devs, "file.zero_padded.current", p.current(), c["value"])
            eq(devs, "file.zero_padded.next", next(p), c["value"])
            eq(devs, "file.zero_padded.then", seqcount.FileSeqCountProvider(w, path).current(), (c["value"] + 1) % mod)
        else:
            target = Path(d) / "real_count.txt"
            if c["k"] == "symlink_to_existing":
                target.write_text("5\n")
            os.symlink(target, path)
            p = seqcount.FileSeqCountProvider(w, path)
            first = 5 % mod if c["k"] == "symlink_to_existing" else 0
            eq(devs, f"file.{c['k']}.first", next(p), first)
            eq(devs, f"file.{c['k']}.second", next(p), (first + 1) % mod)
            eq(devs, f"file.{c['k']}.restart", next(seqcount.FileSeqCountProvider(w, path)), (first + 2) % mod)
            true(devs, f"file.{c['k']}.target_holds_the_count", target.exists() and target.read_text().split("\n")[0] == str((first + 3) % mod), "the link's target does not hold the next count")
        return devs
    finally:
        shutil.rmtree(d, ignore_errors=True)


CLAUSES = [
    Clause(
        id="C19.file.forms",
        doc="count files in other forms: counts with leading zeros (1..25 of them) are those counts; a count file reached through a symbolic link, also one whose target does not exist yet",
        kind="enum", enum=enum_file_forms, check=check_file_forms, classify=lambda c: [c["k"]], required=["zero_padded", "symlink_to_existing", "symlink_to_missing"], shards={"quick": 2, "thorough": 2},
    ),
    Clause(
        id="C19.memory.exhaustive",
        doc="in-memory provider: the complete history of 2^w + 3 calls for every width, via next() and get_and_increment(): value == n mod 2^w, in range, accepted by PacketSeqCtrl",
        kind="enum",
        enum=enum_memory,
        check=check_memory,
        classify=lambda c: [f"width {c['width']}"],
        required=["width 1", "width 8", "width 14"],
        shards={"quick": 4, "thorough": 8},
        exhaustive_note="for each width (quick: 1..12 and 14; thorough: 1..16) the only history there is: 2^w + 3 consecutive calls (next is the only operation)",
    ),
    Clause(
        id="C19.memory.set_width",
        doc="in-memory provider whose width is changed through the documented max_bit_width setter (before first use: any width; in mid-sequence: widened): counts modulo 2^(new width) from then on",
        kind="enum",
        enum=enum_memory_set_width,
        check=check_memory_set_width,
        classify=lambda c: ["narrowed before first use" if c["w1"] < c["w0"] else ("widened before first use" if c["at"] == 0 else "widened in mid-sequence")],
        required=["narrowed before first use", "widened before first use", "widened in mid-sequence"],
        shards={"quick": 2, "thorough": 8},
    ),
    Clause(
        id="C19.memory.near_wrap",
        doc="in-memory provider of every width 1..64 positioned 1, 2, 3 below the wrap through its public count attribute: 7 further calls count up to 2^w - 1 and continue at 0",
        kind="enum",
        enum=enum_memory_near_wrap,
        check=check_memory_near_wrap,
        classify=lambda c: ["width <= 16" if c["width"] <= 16 else ("width 17..53" if c["width"] <= 53 else ("width 54..64" if c["width"] <= 64 else "width > 64"))],
        required=["width <= 16", "width 17..53", "width 54..64", "width > 64"],
        shards={"quick": 2, "thorough": 4},
        weight_by_evals=True,
    ),
    Clause(
        id="C19.file.machine",
        doc="file-backed provider as a rule-based machine: next / get_and_increment / burst / current / reinstantiate (restart point) / inspect_file; file holds the next value between calls",
        kind="history",
        history=FileMachine(),
        nontrivial=_file_nt,
        classify=_file_classes,
        required=["wraps", "restart", "restart before first use", "restart right after wrap", "fresh file", "pre-seeded file", "width 14", "repointed after use"],
        n={"quick": 300, "thorough": 2500},
    ),
    Clause(
        id="C19.file.long",
        doc="file-backed provider: runs of 2 x 2^w + 3 calls with restarts at drawn / all points; width 14 from a file holding 16380; thorough: full 2^14 + 3 run",
        kind="enum",
        enum=enum_file_long,
        check=check_file_long,
        classify=lambda c: [f"width {c['width']}"] + (["restart at every call"] if len(c["restarts"]) == c["calls"] else []),
        required=["width 14", "width 7", "width 16", "width 32", "width 54", "width 64", "width 72", "width 128", "restart at every call"],
        shards={"quick": 4, "thorough": 16},
    ),
    Clause(
        id="C19.reject.listed",
        doc="every listed unreadable / near-numeric / out-of-range content (and the invalid UTF-8 samples) x widths 3, 14, 64 x 0 or 2 calls before: ValueError, file untouched",
        kind="enum",
        enum=lambda tier, shard, nshards, rng: (
            {"k": "content", "width": w, "bad": bad, "calls_before": cb}
            for i, (w, bad, cb) in enumerate((w, bad, cb) for w in (3, 14, 64) for cb in (0, 2)
                                              for bad in [{"text": t} for t in BAD_TEXTS] + [{"text": f"{(1 << w) + d}\n"} for d in (0, 1)] + [{"hex": h} for h in ("ff0a", "c3280a", "80", "fffe300a", "e2820a")])
            if i % nshards == shard
        ),
        check=check_bad, classify=_cls_bad, required=["invalid utf-8", "empty", "negative", "out of range", "non-numeric"], shards={"quick": 2, "thorough": 2},
        exhaustive_note="the complete list of bad contents of this module, each at widths 3, 14 and 64",
    ),
    Clause(
        id="C19.reject",
        doc="empty / non-numeric / negative / out-of-range / non-UTF-8 first line => ValueError; missing file => FileNotFoundError; a refused file is left untouched",
        strategy=st_bad,
        check=check_bad,
        classify=_cls_bad,
        required=["missing file", "invalid utf-8", "empty", "negative", "out of range", "non-numeric"],
        n={"quick": 400, "thorough": 3000},
    ),
]

PROPERTY = Property(
    id="C19",
    level="exploration",
    rule=(
        "in-memory: complete call histories per width; file-backed: rule-based machine with widths 1..6 and 14 (fresh and pre-seeded files so that wrap-around happens inside a history) "
        "where 'reinstantiate' creates a new provider object on the same file at an inter-call point, plus long runs with restarts at every call; oracle = n mod 2^w and the file's first "
        "line == next value; non-trivial = history that wraps or contains a restart"
    ),
    clauses=CLAUSES,
    assumptions=[
        "restart points are between calls (the statement's scope); a crash inside a call is not simulated",
        "file contents that the provider legitimately reads as a number (e.g. trailing blanks) are not in the 'unreadable' class",
        "scratch files live in a mkdtemp directory that each case removes again",
    ],
)
