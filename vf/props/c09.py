"""C09 - decoders never read past the declared packet; trailing octets cannot leak in."""
from __future__ import annotations

from hypothesis import strategies as st

from .. import cfdp_model as M
from .. import decoders as D
from ..core import Clause, Dev, exc_sub
from ..prop import Property
from ..ref import cfdp as R
from . import c10


def units(fam):
    """Entries of a family whose result can be observed (self-delimiting units, PDUs and inspectors)."""
    return [e for e in D.by_family(fam) if e.obs is not None]


FAMILIES = tuple(f for f in D.FAMILIES if units(f))


# ---- suffixes ------------------------------------------------------------------------------------------


def st_suffix(e: D.Entry):
    same_kind = e.valid().map(lambda v: v["raw"])
    tlv_like = st.one_of(D.st_generic_tlv(), M.st_entity_tlv().map(R.tlv_bytes), M.st_fsresp_tlv(8, 4).map(R.tlv_bytes)).map(bytes.hex)
    lv_like = st.binary(max_size=12).map(R.lv).map(bytes.hex)
    seg_like = st.sampled_from([4, 8, 16, 32]).flatmap(lambda n: st.binary(min_size=n, max_size=n)).map(bytes.hex)
    fills = st.tuples(st.sampled_from([0x00, 0xFF, 0x20, 0x18, 0x06]), st.sampled_from([1, 2, 3, 7, 8, 16])).map(lambda t: (bytes([t[0]]) * t[1]).hex())
    noise = st.binary(min_size=1, max_size=24).map(bytes.hex)
    return st.one_of(
        st.tuples(st.just("noise"), noise), st.tuples(st.just("same kind"), same_kind), st.tuples(st.just("tlv"), tlv_like), st.tuples(st.just("lv"), lv_like),
        st.tuples(st.just("segment-request sized"), seg_like), st.tuples(st.just("fill"), fills),
    )


def st_case(fam):
    def for_entry(e: D.Entry):
        return st.tuples(e.valid(), st_suffix(e)).map(lambda t: {"entry": e.name, "cfg": t[0]["cfg"], "raw": t[0]["raw"], "suffix": t[1][1], "shape": t[1][0], "crc": t[0].get("crc", 0)})

    return st.sampled_from(units(fam)).flatmap(for_entry)


def _observe(devs, e, obj, tag):
    try:
        return True, e.obs(obj)
    except Exception as ex:  # noqa: BLE001
        sub = exc_sub(ex)
        if sub is None:
            raise
        devs.append(Dev(f"{e.name}:{tag}:observe_{sub}", f"{type(ex).__name__}: {ex}"[:200]))
        return False, None


def check_suffix(c):
    e = D.ENTRIES[c["entry"]]
    raw = bytes.fromhex(c["raw"])
    suffix = bytes.fromhex(c["suffix"])
    cfg = c["cfg"]
    devs = []
    k0, base = D.outcome(e, raw, cfg)
    if k0 != "ok":
        devs.append(Dev(f"{e.name}:valid_unit_not_accepted", f"{k0}: {base!r} raw={raw.hex()[:120]} cfg={cfg}"))
        return devs
    ok, want = _observe(devs, e, base, "alone")
    if not ok:
        return devs
    if e.replen is not None:
        n = e.replen(base, cfg)
        if n != len(raw):
            devs.append(Dev(f"{e.name}:reported_len", f"unit of {len(raw)} octets decoded alone reports length {n}"))
    for tag, buf in (("bytes", raw + suffix), ("bytearray", bytearray(raw + suffix))):
        k, r = D.outcome(e, buf, cfg)
        if k == "refused":
            if not e.pdu:
                devs.append(Dev(f"{e.name}:refused_with_suffix", f"[{tag}] {type(r).__name__}: {r} - unit + {len(suffix)} trailing octets ({c['shape']}) refused; raw={raw.hex()[:100]} suffix={suffix.hex()[:60]}"))
            continue
        if k != "ok":
            sub = "non_termination" if k == "hang" else (exc_sub(r) or type(r).__name__)
            devs.append(Dev(f"{e.name}:suffix_{sub}", f"[{tag}] {k} {r!r} raw={raw.hex()[:100]} suffix={suffix.hex()[:60]}"))
            continue
        ok, got = _observe(devs, e, r, "with_suffix")
        if not ok:
            continue
        if got != want:
            diff = _diff(got, want)
            devs.append(Dev(f"{e.name}:suffix_leaks", f"[{tag}] decoding unit+suffix differs from decoding the unit alone in {diff}; raw={raw.hex()[:100]} suffix={suffix.hex()[:60]} ({c['shape']})"))
        if e.replen is not None:
            n = e.replen(r, cfg)
            if n != len(raw):
                devs.append(Dev(f"{e.name}:reported_len_with_suffix", f"[{tag}] reports {n}, unit has {len(raw)} octets"))
    return devs


def battery(raw: bytes):
    """A fixed battery of suffixes tried behind every generated unit (the drawn suffix of the clause above reaches each shape only now
    and then): well-formed TLVs of every type that may follow in a PDU, LVs, every segment-request size (with and without two more
    octets for a CRC), fills, and the unit itself."""
    out = []
    for w in (1, 2, 4, 8):
        out.append((f"entity TLV width {w}", bytes([0x06, w]) + bytes(range(1, w + 1))))
    out.append(("filestore response TLV", R.tlv_bytes({"t": "fsresp", "action": 0, "status": 0, "n1": "a", "n2": "", "msg": ""})))
    out.append(("filestore request TLV", R.tlv_bytes({"t": "fsreq", "action": 2, "n1": "a", "n2": "b"})))
    for t in (0x02, 0x04, 0x05):
        out.append((f"TLV type {t}", R.tlv(t, b"\x13\x01")))
    out.append(("empty LV", R.lv(b"")))
    out.append(("LV", R.lv(b"abc")))
    for n in (4, 8, 10, 16, 18, 32, 34):
        out.append((f"{n} octets", bytes((i * 29 + n) & 0xFF for i in range(n))))
    for fill, n in ((0x00, 1), (0x00, 2), (0x00, 8), (0xFF, 1), (0xFF, 8), (0x06, 2)):
        out.append((f"fill {fill:02x} x {n}", bytes([fill]) * n))
    out.append(("the unit again", raw))
    return out


def check_battery(c):
    """One case = one generated unit of EVERY entry of the family (a drawn entry would starve some of them at small n)."""
    devs, seen, n = [], set(), 0
    for u in c["units"]:
        raw = bytes.fromhex(u["raw"])
        for shape, suffix in battery(raw):
            r = check_suffix({**u, "suffix": suffix.hex(), "shape": shape})
            n += 1
            for d in r:
                if d.sub not in seen:
                    seen.add(d.sub)
                    devs.append(d)
    return devs, n


def _diff(got, want):
    if isinstance(got, dict) and isinstance(want, dict):
        ks = [k for k in sorted(set(got) | set(want)) if got.get(k) != want.get(k)]
        return ", ".join(f"{k}: {str(got.get(k))[:60]} != {str(want.get(k))[:60]}" for k in ks[:4])
    return f"{str(got)[:80]} != {str(want)[:80]}"


def _nt_suffix(c):
    e = D.ENTRIES[c["entry"]]
    if e.pdu:
        return bool(c.get("crc")) or (len(c["suffix"]) // 2) % 8 == 0
    return len(c["suffix"]) > 0


def _cls_suffix(c):
    e = D.ENTRIES[c["entry"]]
    out = [c["entry"], "suffix: " + c["shape"]]
    if e.pdu and c.get("crc"):
        out.append("pdu with crc")
    if (len(c["suffix"]) // 2) % 8 == 0:
        out.append("suffix multiple of 8")
    return out


# ---- PDUs whose own CRC trailer looks like the start of a TLV ----------------------------------------------------


def st_crc_lookalike():
    """A CRC-carrying PDU with a TLV area at its end (EOF with fault location allowed, Finished, Metadata) whose CRC-16 trailer reads
    like a TLV header (type octet of a TLV that may follow there, small length), followed by a suffix of matching size.  The two low
    octets of the transaction sequence number are solved for (CRC-16 is affine), everything else is generated."""
    from ..ref.crc import solve_two_octets

    def build(t):
        p, ttype, tlen, extra, entry_kind = t
        raw = M.ref_pdu(p)
        c = p["conf"]
        pos = 4 + c["idw"] + c["seqw"] - 2
        body = solve_two_octets(raw[:-2], pos, (ttype << 8) | tlen)
        unit = body + bytes([ttype, tlen])
        suffix = bytes((i * 37 + tlen) & 0xFF for i in range(tlen + extra))
        cn = D.PDU_CLASS_NAMES[p["kind"]]
        return {"entry": f"{cn}.unpack" if entry_kind == 0 else ("PduFactory.from_raw" if entry_kind == 1 else "PduFactory.from_raw_to_holder"), "cfg": {}, "raw": unit.hex(),
                "suffix": suffix.hex(), "shape": "crc looks like a TLV header", "crc": 1}

    conf = M.st_conf(crc=1).filter(lambda c: c["seqw"] >= 2)
    kinds = st.sampled_from(["finished", "finished", "eof", "metadata"])

    def open_tlv_area(p):
        """Half of the PDUs are put into the shape in which a further TLV behind the last one would be legal: a Finished PDU with at
        least one filestore response, a condition code that admits a fault location and none present; an EOF with an error code and no
        fault location; a Metadata PDU with at least one option."""
        if p["conf"]["seq"] % 2:
            return p
        p = dict(p)
        if p["kind"] == "finished":
            p["fault"] = None
            if p["cc"] not in M.FIN_FAULT_CCS:
                p["cc"] = 4
            if not p["responses"]:
                p["responses"] = [{"t": "fsresp", "action": 0, "status": 0, "n1": "a", "n2": "", "msg": ""}]
        elif p["kind"] == "eof":
            p["fault"] = None
            if p["cc"] == 0:
                p["cc"] = 5
        elif p["kind"] == "metadata" and not p.get("options"):
            p["options"] = [{"t": "flow", "v": "01"}]
        return p

    pdu = kinds.flatmap(lambda k: M.st_pdu(k, conf, small=True)).map(open_tlv_area)
    # one generated PDU, one trailer type: every pseudo length in {0,1,2,3,4,8} x every suffix that is 0, 1, 2 or 4 octets longer than it
    return st.tuples(pdu, st.sampled_from([0x06, 0x06, 0x01, 0x02, 0x05, 0x04, 0x00]), st.integers(0, 2)).map(
        lambda t: {"variants": [build((t[0], t[1], tlen, extra, t[2])) for tlen in (0, 1, 2, 3, 4, 8) for extra in (0, 1, 2, 4)]})


def check_lookalike(c):
    devs, n = [], 0
    seen = set()
    for v in c["variants"]:
        r = check_suffix(v)
        d, k = r if isinstance(r, tuple) else (r, 1)
        n += k
        for x in d:
            if x.sub not in seen:
                seen.add(x.sub)
                devs.append(x)
    return devs, max(n, 1)


# ---- suffixes that make a checksum computed over the wrong extent come out right ----------------------------------------


def st_crc_wrong_extent():
    """A CRC-carrying PDU followed by a suffix in which two octets are solved for, so that a checksum computed over another extent
    than the PDU's own octets agrees with the stored trailer (or is zero): over the buffer without its last two octets, over the whole
    buffer, over the PDU without its header.  A decoder that verifies the wrong extent accepts exactly these; random suffixes hit one
    with probability 2^-16."""
    from ..ref.crc import crc16_fast, solve_two_octets

    def build(t):
        p, filler, tail, entry_kind, mode = t
        raw = M.ref_pdu(p)
        stored = int.from_bytes(raw[-2:], "big")
        variants = []
        for fl in (b"", filler):
            if mode == 0:
                # crc16(pdu + fl + XX) == stored trailer, then two more octets: "the checksum is the last two octets of the buffer" read with the stored one
                body = solve_two_octets(raw + fl + b"\x00\x00", len(raw) + len(fl), stored)
                variants.append(body[len(raw):] + tail[:2].ljust(2, b"\x77"))
                # ... and the buffer ending in the PDU's own trailer value again
                variants.append(body[len(raw):] + raw[-2:])
            else:
                # crc16 over the whole buffer == 0 although the suffix is not zero fill
                body = solve_two_octets(raw + fl + b"\x00\x00", len(raw) + len(fl), 0)
                variants.append(body[len(raw):])
        cn = D.PDU_CLASS_NAMES[p["kind"]]
        entry = f"{cn}.unpack" if entry_kind == 0 else ("PduFactory.from_raw" if entry_kind == 1 else "PduFactory.from_raw_to_holder")
        return {"variants": [{"entry": entry, "cfg": {}, "raw": raw.hex(), "suffix": v.hex(), "shape": "checksum over another extent agrees", "crc": 1} for v in variants if v]}

    conf = M.st_conf(crc=1)
    pdu = st.sampled_from(M.KINDS).flatmap(lambda k: M.st_pdu(k, conf, small=True))
    return st.tuples(pdu, st.binary(min_size=1, max_size=9), st.binary(min_size=2, max_size=2), st.integers(0, 2), st.integers(0, 1)).map(build)


# ---- back-to-back units split purely by the reported lengths ----------------------------------------------------


def walkers(fam):
    return [e for e in units(fam) if e.replen is not None and not e.pdu]


def st_walk(fam):
    def for_entry(e: D.Entry):
        return st.lists(e.valid(), min_size=2, max_size=4).map(lambda vs: {"entry": e.name, "units": [{"cfg": v["cfg"], "raw": v["raw"]} for v in vs]})

    return st.sampled_from(walkers(fam)).flatmap(for_entry)


def check_walk(c):
    e = D.ENTRIES[c["entry"]]
    devs = []
    stream = b"".join(bytes.fromhex(u["raw"]) for u in c["units"])
    off = 0
    for i, u in enumerate(c["units"]):
        raw = bytes.fromhex(u["raw"])
        k0, alone = D.outcome(e, raw, u["cfg"])
        if k0 != "ok":
            devs.append(Dev(f"{e.name}:valid_unit_not_accepted", f"{k0}: {alone!r} raw={raw.hex()[:120]}"))
            return devs
        k, r = D.outcome(e, stream[off:], u["cfg"])
        if k != "ok":
            devs.append(Dev(f"{e.name}:walk_{k}", f"unit {i} at offset {off} of {len(stream)}: {r!r}; stream={stream.hex()[:160]}"))
            return devs
        ok1, want = _observe(devs, e, alone, "alone")
        ok2, got = _observe(devs, e, r, "in_stream")
        if not (ok1 and ok2):
            return devs
        if got != want:
            devs.append(Dev(f"{e.name}:walk_differs", f"unit {i} at offset {off}: {_diff(got, want)}; stream={stream.hex()[:160]}"))
            return devs
        n = e.replen(r, u["cfg"])
        if n != len(raw):
            devs.append(Dev(f"{e.name}:walk_reported_len", f"unit {i} at offset {off}: reports {n}, unit has {len(raw)} octets"))
            return devs
        off += n
    if off != len(stream):
        devs.append(Dev(f"{e.name}:walk_end", f"walk ended at {off}, stream has {len(stream)} octets"))
    return devs, len(c["units"])


def _cls_walk(c):
    return [c["entry"], f"{len(c['units'])} units"]


# ---- any accepted buffer: decoding the first N reported octets gives the same result ---------------------------------


def sized(fam):
    return [e for e in units(fam) if e.replen is not None]


def st_accepted(fam):
    es = sized(fam)
    names = {e.name for e in es}
    return c10.st_raw(fam).filter(lambda c: c["entry"] in names) if len(es) != len(D.by_family(fam)) else c10.st_raw(fam)


def check_accepted(c):
    e = D.ENTRIES[c["entry"]]
    buf = bytes.fromhex(c["buf"])
    cfg = c["cfg"]
    if c.get("patch") and e.crc is not None:
        buf = e.crc(buf, cfg)
    devs = []
    k, r = D.outcome(e, buf, cfg)
    if k != "ok":
        return devs, 0  # refusals and undocumented exceptions are C10's business
    try:
        n = e.replen(r, cfg)
        got = e.obs(r)
    except Exception as ex:  # noqa: BLE001 - lazily decoded accessors of an object built from noise may raise; not this property
        if exc_sub(ex) is None:
            raise
        return devs, 0
    if not isinstance(n, int) or n > len(buf) or n < 0:
        return devs, 0
    # domain of the statement: the buffer *begins with a unit* - i.e. its first N octets are themselves accepted as a unit of N octets.
    # (A buffer whose first N octets are refused does not begin with a valid unit; what the decoder does with it is C10's business.)
    k2, r2 = D.outcome(e, buf[:n], cfg)
    if k2 != "ok":
        return devs, 0
    try:
        want = e.obs(r2)
        if e.replen(r2, cfg) != n:
            return devs, 0
    except Exception as ex:  # noqa: BLE001
        if exc_sub(ex) is None:
            raise
        return devs, 0
    if got != want:
        devs.append(Dev(f"{e.name}:accepted_differs_from_first_n", f"{_diff(got, want)}; buf={buf.hex()[:160]} n={n} cfg={cfg}"))
    return devs, 1


def _nt_accepted(c):
    return len(c["buf"]) // 2 >= 6


CLAUSES = []
for _fam in FAMILIES:
    CLAUSES.append(Clause(
        id=f"C09.suffix.{_fam}",
        doc=f"{_fam}: decode(unit + suffix) observes exactly what decode(unit) observes and reports len(unit); suffixes = noise, another unit of the same kind, TLV-/LV-shaped, "
            "segment-request-sized octets, fills; a CFDP PDU + suffix may instead be refused with a documented error",
        strategy=(lambda _fam=_fam: st_case(_fam)), check=check_suffix, nontrivial=_nt_suffix, classify=_cls_suffix,
        required=[e.name for e in units(_fam)] + ["suffix: same kind", "suffix: tlv", "suffix: segment-request sized"] + (["pdu with crc", "suffix multiple of 8"] if _fam == "cfdp_pdu" else []),
        rule="non-trivial = non-empty suffix; for PDUs additionally CRC on or a suffix whose size is a multiple of 8 (slips through length-modulo checks)",
        n={"quick": 60 * len(units(_fam)), "thorough": 800 * len(units(_fam))},
    ))
    CLAUSES.append(Clause(
        id=f"C09.battery.{_fam}",
        doc=f"{_fam}: every generated unit followed by each of a fixed battery of suffixes (entity / filestore / other TLVs, LVs, 4..34 octets, fills, the unit again): same oracle as the suffix clause",
        strategy=(lambda _fam=_fam: st.tuples(*[e.valid().map(lambda v, e=e: {"entry": e.name, "cfg": v["cfg"], "raw": v["raw"], "crc": v.get("crc", 0)}) for e in units(_fam)]).map(lambda t: {"units": list(t)})),
        check=check_battery, classify=lambda c: [u["entry"] for u in c["units"]] + (["pdu with crc"] if any(u.get("crc") for u in c["units"]) else []), required=[e.name for e in units(_fam)],
        weight_by_evals=True, rule="every (unit, suffix of the battery) pair is non-trivial",
        n={"quick": 25, "thorough": 300},
    ))
    if walkers(_fam):
        CLAUSES.append(Clause(
            id=f"C09.walk.{_fam}",
            doc=f"{_fam}: 2..4 units packed back to back are recovered by decode / advance-by-reported-length, each identical to the unit decoded alone, and the walk ends exactly at the end",
            strategy=(lambda _fam=_fam: st_walk(_fam)), check=check_walk, classify=_cls_walk, required=[e.name for e in walkers(_fam)],
            rule="every walk over >= 2 units is non-trivial",
            n={"quick": 40 * len(walkers(_fam)), "thorough": 500 * len(walkers(_fam))},
        ))
    if sized(_fam):
        CLAUSES.append(Clause(
            id=f"C09.accepted.{_fam}",
            doc=f"{_fam}: for generated noise / spliced / mutated buffers that the decoder accepts with a reported length N <= len(buffer) and whose first N octets are themselves accepted as a unit of N octets: both decodings observe the same",
            strategy=(lambda _fam=_fam: st_accepted(_fam)), check=check_accepted, nontrivial=_nt_accepted, classify=lambda c: [c["entry"]],
            rule="non-trivial = buffer of at least 6 octets",
            n={"quick": 100 * len(sized(_fam)), "thorough": 1500 * len(sized(_fam))},
        ))

CLAUSES.append(Clause(
    id="C09.fuzz",
    kind="fuzz",
    doc="coverage-guided campaign (atheris/libFuzzer) over all entry points with the same oracle inside the target: octet 0 = entry, octet 1 = flags (CRC re-patch, decoder configuration), rest = buffer; "
        "even shards start from an empty corpus, odd shards from valid units; reported buckets are re-run through the plain oracle",
    check=check_accepted, nontrivial=_nt_accepted, classify=lambda c: [c["entry"]], tiers=("thorough",),
    fuzz={"prop": "C09", "runs": {"thorough": 400000}, "seeded": 3},
    rule="distinct = distinct fuzzer inputs (64-bit digests) that are non-trivial by the rule of the corresponding @given clause; executions are exact to within 1000 (atheris exits through os._exit)",
    shards={"quick": 0, "thorough": 16},
))

CLAUSES.append(Clause(
    id="C09.crc_lookalike",
    doc="EOF / Finished / Metadata PDUs with CRC whose own CRC-16 trailer is made to read like a TLV header (type 06 / 01 / 02 / 05 / 04 / 00, small length) by solving for two "
        "sequence-number octets, followed by a suffix of the matching size: decoded exactly as the PDU alone or refused - the trailer and what follows never become a fault location, response or option",
    strategy=st_crc_lookalike, check=check_lookalike, nontrivial=lambda c: True, weight_by_evals=True,
    classify=lambda c: [c["variants"][0]["entry"].split(".")[0], "trailer type %s" % c["variants"][0]["raw"][-4:-2]],
    required=["FinishedPdu", "EofPdu", "MetadataPdu", "PduFactory", "trailer type 06", "trailer type 01"],
    rule="every case is non-trivial by construction (2^-16 rare for random fields)",
    n={"quick": 150, "thorough": 1500},
))

CLAUSES.append(Clause(
    id="C09.crc_wrong_extent",
    doc="PDUs with CRC followed by suffixes in which two octets are solved so that the checksum over another extent (buffer minus two octets, whole buffer) agrees: decoded exactly "
        "as the PDU alone or refused - a decoder that verifies the wrong extent folds the trailer and the suffix into file data, options or requests",
    strategy=st_crc_wrong_extent, check=check_lookalike, nontrivial=lambda c: True, weight_by_evals=True,
    classify=lambda c: [c["variants"][0]["entry"].split(".")[0]] if c["variants"] else [],
    required=["FileDataPdu", "PduFactory"], rule="every case is non-trivial by construction", n={"quick": 200, "thorough": 2000},
))

PROPERTY = Property(
    id="C09",
    level="exploration",
    rule=(
        "valid packed units of every kind (from the reference encoders: space packet header, PUS TC/TM, service 1/17 wrappers, CDS stamp, request id, field enums, byte fields, CFDP header, 8 PDU kinds "
        "with and without CRC, factory, LV, generic and six concrete TLVs, reserved messages, USLP headers and frames) x suffixes (noise, another unit of the same kind, TLV-/LV-shaped, 4/8/16/32 octets "
        "shaped like segment requests, fills); oracle = metamorphic: observation of decode(unit+suffix) == observation of decode(unit), reported length == len(unit); back-to-back walks; and for any "
        "accepted generated buffer, decode(buffer[:N]) observes the same. Non-trivial = non-empty suffix (PDUs: CRC on or suffix a multiple of 8)"
    ),
    clauses=CLAUSES,
    assumptions=[
        "observation functions read every user-visible field (vf/cfdp_model.py obs_pdu, c01/c02/c03/c15/c17 observers) plus the re-packed octets where cheap",
        "a CFDP PDU followed by further octets may be refused with a documented error (the statement allows it; the suite requires it for NAK)",
        "USLP frames are decoded under the managed parameters that match the unit; for fixed-length frames the fixed length is the unit's length",
    ],
)
