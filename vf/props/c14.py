"""C14 - CDS short timestamps encode exactly and agree with calendar arithmetic."""
from __future__ import annotations

import datetime as dt

from hypothesis import strategies as st

from ..core import Clause, Dev, eq, expect_raise, pack_fresh, true
from ..prop import Property

UTC = dt.timezone.utc
EPOCH = dt.datetime(1958, 1, 1, tzinfo=UTC)
UNIX = dt.datetime(1970, 1, 1, tzinfo=UTC)
MS_DAY = 86_400_000
DAY_OFFSET = 4383  # days from 1958-01-01 to 1970-01-01
DT_TOL = dt.timedelta(microseconds=1)
SEC_TOL = 1e-5

# 4383 = 1970-01-01; 29238 / 54093 = the days on which the Unix time passes 2^31 / 2^32 seconds; 15340 / 51864 = 2000-01-01 / 2100-01-01 (leap-year rule);
# 15399 / 15400 = 2000-02-29 / 03-01; 51923 = 2100-03-01 (no Feb 29 that year)
DAYS = [0, 1, 2, 365, 4382, 4383, 4384, 4385, 10000, 15340, 15399, 15400, 19000, 24855, 24856, 29237, 29238, 29239, 32767, 32768, 49710, 49711, 51864, 51922, 51923, 54092, 54093, 54094, 65534, 65535]
MSS = [0, 1, 2, 999, 1000, 1001, 43_199_999, 43_200_000, 43_200_001, 86_398_999, 86_399_000, 86_399_998, 86_399_999]


def _cds():
    from spacepackets.ccsds.time import cds

    return cds


def st_days():
    return st.one_of(st.sampled_from(DAYS), st.integers(0, 65535), st.integers(0, 4383))


def st_ms():
    return st.one_of(st.sampled_from(MSS), st.integers(0, MS_DAY - 1))


def exact_dt(days, ms):
    return EPOCH + dt.timedelta(days=days, milliseconds=ms)


def exact_unix_ms(days, ms):
    return (days - DAY_OFFSET) * MS_DAY + ms


def check_views(devs, s, days, ms, tag):
    eq(devs, f"{tag}.days", s.ccsds_days, days)
    eq(devs, f"{tag}.ms", s.ms_of_day, ms)
    want = bytes([0x40]) + days.to_bytes(2, "big") + ms.to_bytes(4, "big")
    pack_fresh(devs, f"{tag}.pack", s.pack, want)
    d = s.as_datetime()
    true(devs, f"{tag}.datetime_tz", d.tzinfo is not None and d.utcoffset() == dt.timedelta(0), f"as_datetime() not UTC-aware: {d!r}")
    if d.tzinfo is not None:
        diff = abs(d - exact_dt(days, ms))
        true(devs, f"{tag}.datetime", diff <= DT_TOL, f"as_datetime() {d.isoformat()} want {exact_dt(days, ms).isoformat()} (days={days}, ms={ms})")
    u = s.as_unix_seconds()
    true(devs, f"{tag}.unix_seconds", abs(u - exact_unix_ms(days, ms) / 1000.0) <= SEC_TOL, f"as_unix_seconds() {u!r} want {exact_unix_ms(days, ms) / 1000.0!r} (days={days}, ms={ms})")


def check_codec(c):
    cds = _cds()
    devs = []
    days, ms = c["days"], c["ms"]
    s = cds.CdsShortTimestamp(days, ms)
    check_views(devs, s, days, ms, "ctor")
    eq(devs, "len_packed", s.len_packed, 7)
    eq(devs, "pfield", bytes(s.pfield), b"\x40")
    raw = bytes([0x40]) + days.to_bytes(2, "big") + ms.to_bytes(4, "big")
    tail = bytes.fromhex(c.get("tail", ""))
    for tag, buf in (("exact", raw), ("tail", raw + tail), ("bytearray", bytearray(raw + tail))):
        u = cds.CdsShortTimestamp.unpack(buf)
        check_views(devs, u, days, ms, f"unpack.{tag}")
        true(devs, f"unpack.eq.{tag}", u == s, "unpack(pack(s)) != s")
    eq(devs, "unpack_from_raw", tuple(cds.CdsShortTimestamp.unpack_from_raw(raw)), (days, ms))
    e = cds.CdsShortTimestamp.empty()
    e.read_from_raw(raw)
    check_views(devs, e, days, ms, "read_from_raw")
    f = cds.CdsShortTimestamp.from_unix_days(days - DAY_OFFSET, ms)
    check_views(devs, f, days, ms, "from_unix_days")
    # reader objects created without the derived views (documented keyword init_dt_unix_stamp=False) and then filled by read_from_raw:
    # an all-zero placeholder, and a holder that already carries the very pair that is decoded
    for tag, holder in (("empty_no_views", cds.CdsShortTimestamp.empty(False)), ("same_pair_no_views", cds.CdsShortTimestamp(days, ms, init_dt_unix_stamp=False)),
                        ("same_pair_no_views_kw", cds.CdsShortTimestamp(ccsds_days=days, ms_of_day=ms, init_dt_unix_stamp=False))):
        holder.read_from_raw(raw)
        check_views(devs, holder, days, ms, f"read_from_raw.{tag}")
    return devs


def check_pair(c):
    cds = _cds()
    devs = []
    a, b = c["a"], c["b"]
    sa, sb = cds.CdsShortTimestamp(*a), cds.CdsShortTimestamp(*b)
    ka, kb = a[0] * MS_DAY + a[1], b[0] * MS_DAY + b[1]
    if ka < kb:
        true(devs, "monotonic.unix", sa.as_unix_seconds() < sb.as_unix_seconds(), f"later stamp maps to earlier/equal unix seconds: {a} -> {sa.as_unix_seconds()}, {b} -> {sb.as_unix_seconds()}")
        true(devs, "monotonic.datetime", sa.as_datetime() < sb.as_datetime(), f"later stamp maps to earlier/equal datetime: {a}, {b}")
    eq(devs, "eq_iff", bool(sa == sb), ka == kb and a == b)
    return devs


def st_pair():
    one = st.tuples(st_days(), st_ms())

    def second(a):
        d, m = a
        near = [st.just(a), one]
        if m + 1 < MS_DAY:
            near.append(st.just((d, m + 1)))
        if d < 65535:
            near.append(st.just((d + 1, 0)))
            near.append(st.just((d + 1, m)))
        return st.tuples(st.just(a), st.one_of(near))

    return one.flatmap(second).map(lambda t: {"a": list(min(t)), "b": list(max(t))})


# ---- from_datetime -----------------------------------------------------------------------------------

MAX_DT_US = (65536 * 86400) * 1_000_000 - 1  # last microsecond of day 65535


def st_datetime_us():
    """Microseconds since 1958-01-01 (whole-millisecond and pre-1970 over-weighted)."""
    pre = DAY_OFFSET * 86400 * 1_000_000
    return st.one_of(
        st.integers(0, MAX_DT_US),
        st.integers(0, MAX_DT_US // 1000).map(lambda k: k * 1000),
        st.integers(0, pre),
        st.integers(0, pre // 1000).map(lambda k: k * 1000),
        st.tuples(st.sampled_from(DAYS), st.sampled_from(MSS), st.sampled_from([0, 0, 1, 499, 500, 501, 999])).map(lambda t: (t[0] * MS_DAY + t[1]) * 1000 + t[2]),
        st.tuples(st.integers(0, 65535), st.integers(0, 86399), st.sampled_from([1000, 2000, 9000, 57000, 999000, 1001, 123456])).map(lambda t: (t[0] * 86400 + t[1]) * 1_000_000 + t[2]),
        # instants around the Unix time 2^31 and 2^32 seconds, around the epoch itself, and around the last representable day
        st.tuples(st.sampled_from([DAY_OFFSET * 86400 + (1 << 31), DAY_OFFSET * 86400 + (1 << 32), DAY_OFFSET * 86400, 65535 * 86400, 65536 * 86400 - 1]), st.integers(-3, 3),
                  st.sampled_from([0, 1, 999, 1000, 500_000, 999_000, 999_999])).map(lambda t: min(max((t[0] + t[1]) * 1_000_000 + t[2], 0), MAX_DT_US)),
    )


def _under_tz(tz, fn, *a):
    """Run fn with the process time zone set to ``tz`` (UTC datetimes must not depend on it); always restored."""
    import os
    import time

    old = os.environ.get("TZ")
    os.environ["TZ"] = tz
    time.tzset()
    try:
        return fn(*a)
    finally:
        if old is None:
            os.environ.pop("TZ", None)
        else:
            os.environ["TZ"] = old
        time.tzset()


TZS = ("UTC0", "CET-1CEST", "EST5EDT", "NZST-12NZDT", "IST-5:30", "<-11>11")


def check_from_datetime(us):
    devs = _check_from_datetime(us)
    if not devs:
        tz = TZS[us % len(TZS)]
        devs = [Dev(f"{d.sub}.under_TZ", f"process TZ={tz}: {d.detail}") for d in _under_tz(tz, _check_from_datetime, us)]
    return devs


def _check_from_datetime(us):
    cds = _cds()
    devs = []
    d = EPOCH + dt.timedelta(microseconds=us)
    s = cds.CdsShortTimestamp.from_datetime(d)
    total_ms_floor = us // 1000
    got_total = s.ccsds_days * MS_DAY + s.ms_of_day
    true(devs, "from_datetime.ms_in_range", 0 <= s.ms_of_day < MS_DAY, f"ms_of_day {s.ms_of_day} out of range for {d.isoformat()}")
    if us % 1000 == 0:
        eq(devs, "from_datetime.whole_ms", (s.ccsds_days, s.ms_of_day), (total_ms_floor // MS_DAY, total_ms_floor % MS_DAY), f"{d.isoformat()}")
    else:
        true(devs, "from_datetime.sub_ms", got_total in (total_ms_floor, total_ms_floor + 1), f"{d.isoformat()} -> days={s.ccsds_days} ms={s.ms_of_day}, exact total ms {us / 1000}")
    # the stamp must be packable and decode to itself
    if 0 <= s.ccsds_days <= 65535 and 0 <= s.ms_of_day < (1 << 32):
        u = cds.CdsShortTimestamp.unpack(bytes(s.pack()))
        true(devs, "from_datetime.pack_roundtrip", u == s, "from_datetime stamp does not survive pack/unpack")
    return devs


def _cls_dt(us):
    out = ["whole ms" if us % 1000 == 0 else "sub-ms"]
    if us < DAY_OFFSET * 86400 * 1_000_000:
        out.append("pre-1970")
    if us % 1_000_000:
        out.append("sub-second")
    return out


# ---- addition ------------------------------------------------------------------------------------------


def st_add():
    td = st.one_of(
        st.fixed_dictionaries({"days": st.integers(0, 3), "seconds": st.integers(0, 86399), "us": st.integers(0, 999_999)}),
        st.fixed_dictionaries({"days": st.one_of(st.integers(0, 70000), st.just(0)), "seconds": st.sampled_from([0, 1, 59, 3600, 43200, 86399]), "us": st.sampled_from([0, 1, 999, 1000, 1001, 500_000, 999_000, 999_999])}),
    )
    # also construct sums that land exactly on midnight / on the day limit
    def exact_midnight(t):
        days, ms = t
        rem = MS_DAY - ms
        return {"days": days, "ms": ms, "td": {"days": 0, "seconds": (rem // 1000) % 86400, "us": (rem % 1000) * 1000}} if rem // 1000 < 86400 else {"days": days, "ms": ms, "td": {"days": 1, "seconds": 0, "us": 0}}

    gen = st.tuples(st_days(), st_ms(), td).map(lambda t: {"days": t[0], "ms": t[1], "td": t[2]})
    midnight = st.tuples(st_days(), st_ms()).map(exact_midnight)
    limit = st.tuples(st.integers(65530, 65535), st_ms(), st.integers(0, 6), st.sampled_from([0, 1, 86399]), st.sampled_from([0, 999_999])).map(
        lambda t: {"days": t[0], "ms": t[1], "td": {"days": t[2], "seconds": t[3], "us": t[4]}}
    )
    # history: how the stamp came to be (constructor / decoded / from_datetime-style route), whether its views were read before
    # the addition (a lazily cached view must not survive it), and an optional second addition chained onto the result
    hist = st.fixed_dictionaries({"route": st.sampled_from(["ctor", "unpack", "read_from_raw", "from_unix_days", "from_datetime", "read_into_from_datetime", "from_datetime_sub_ms", "from_datetime_sub_ms"]), "views_before": st.booleans(), "then": st.one_of(st.none(), td)})
    return st.tuples(st.one_of(gen, gen, midnight, limit), hist).map(lambda t: {**t[0], **t[1]})


def check_add(c):
    cds = _cds()
    devs = []
    td = dt.timedelta(days=c["td"]["days"], seconds=c["td"]["seconds"], microseconds=c["td"]["us"])
    td_ms = td.days * MS_DAY + td.seconds * 1000 + td.microseconds // 1000
    total = c["days"] * MS_DAY + c["ms"] + td_ms
    wd, wm = total // MS_DAY, total % MS_DAY
    route = c.get("route", "ctor")
    raw = bytes([0x40]) + c["days"].to_bytes(2, "big") + c["ms"].to_bytes(4, "big")
    if route == "unpack":
        s = cds.CdsShortTimestamp.unpack(raw)
    elif route == "read_from_raw":
        s = cds.CdsShortTimestamp.empty()
        s.read_from_raw(raw)
    elif route == "from_unix_days":
        s = cds.CdsShortTimestamp.from_unix_days(c["days"] - DAY_OFFSET, c["ms"])
    elif route == "from_datetime":
        s = cds.CdsShortTimestamp.from_datetime(exact_dt(c["days"], c["ms"]))  # whole-millisecond datetime: exact by the statement
    elif route == "read_into_from_datetime":
        s = cds.CdsShortTimestamp.from_datetime(exact_dt(12345, 6789))
        s.read_from_raw(raw)
    elif route == "from_datetime_sub_ms" and (c["days"], c["ms"]) != (65535, MS_DAY - 1):
        # built from a datetime that is not a whole millisecond: the stamp holds some (days, ms) - the floor, or one more - and from
        # then on it is that pair; what lay below the millisecond takes no part in later sums
        sub = (c["ms"] * 7 + c["days"] + c["td"]["us"]) % 999 + 1
        s = cds.CdsShortTimestamp.from_datetime(exact_dt(c["days"], c["ms"]) + dt.timedelta(microseconds=sub))
        base = s.ccsds_days * MS_DAY + s.ms_of_day
        true(devs, "add.sub_ms_base", base - (c["days"] * MS_DAY + c["ms"]) in (0, 1), f"from_datetime of ({c['days']},{c['ms']}) + {sub} us gave ({s.ccsds_days},{s.ms_of_day})")
        if devs:
            return devs
        total = base + td_ms
        wd, wm = total // MS_DAY, total % MS_DAY
    else:
        s = cds.CdsShortTimestamp(c["days"], c["ms"])
    if route == "from_datetime_sub_ms":
        s.as_unix_seconds(), s.as_datetime()  # read, not judged: the views of such a stamp may carry the sub-millisecond part
    elif c.get("views_before") or route in ("from_datetime", "read_into_from_datetime") or (c["days"] + c["ms"]) % 2 == 0:
        # (also decided by the parity of the value: a drawn boolean alone is under-sampled on its True side)
        check_views(devs, s, c["days"], c["ms"], f"add.views_before.{route}")
    if wd > 65535:
        expect_raise(devs, "add.overflow", lambda: s + td, accept=(OverflowError,))
        return devs
    try:
        if (c["days"] + c["td"]["seconds"]) % 2:
            r = s
            r += td  # the in-place spelling (falls back to __add__ unless the class defines its own)
        else:
            r = s + td
    except OverflowError as e:
        devs.append(Dev("add.spurious_overflow", f"OverflowError for a sum with day count {wd}: {e}"))
        return devs
    true(devs, "add.normalised", 0 <= r.ms_of_day < MS_DAY, f"ms_of_day {r.ms_of_day} not < 86400000 after adding {td!r} to ({c['days']},{c['ms']})")
    eq(devs, "add.value", (r.ccsds_days, r.ms_of_day), (wd, wm), f"({c['days']},{c['ms']}) + {td!r}")
    if (r.ccsds_days, r.ms_of_day) == (wd, wm):
        check_views(devs, r, wd, wm, f"add.views.{route}")
    if not devs and route in ("read_from_raw", "ctor", "unpack"):
        # one reader object: the same octets decoded again after an addition give the decoded pair again (not the sum)
        rd = cds.CdsShortTimestamp.empty()
        rd.read_from_raw(raw)
        rd += td
        rd.read_from_raw(raw)
        eq(devs, "add.then_same_octets_read_again", (rd.ccsds_days, rd.ms_of_day), (c["days"], c["ms"]))
        if (rd.ccsds_days, rd.ms_of_day) == (c["days"], c["ms"]):
            check_views(devs, rd, c["days"], c["ms"], "add.then_same_octets_read_again.views")
    if c.get("then") is not None and not devs:
        td2 = dt.timedelta(days=c["then"]["days"], seconds=c["then"]["seconds"], microseconds=c["then"]["us"])
        total2 = wd * MS_DAY + wm + td2.days * MS_DAY + td2.seconds * 1000 + td2.microseconds // 1000
        if total2 // MS_DAY <= 65535:
            r2 = r
            r2 += td2
            eq(devs, "add.chained.value", (r2.ccsds_days, r2.ms_of_day), (total2 // MS_DAY, total2 % MS_DAY), f"second addition of {td2!r}")
            if (r2.ccsds_days, r2.ms_of_day) == (total2 // MS_DAY, total2 % MS_DAY):
                check_views(devs, r2, total2 // MS_DAY, total2 % MS_DAY, "add.chained.views")
    return devs


def _cls_add(c):
    td_ms = c["td"]["days"] * MS_DAY + c["td"]["seconds"] * 1000 + c["td"]["us"] // 1000
    total = c["days"] * MS_DAY + c["ms"] + td_ms
    out = []
    if c.get("views_before"):
        out.append("views read before the addition")
    if c.get("then") is not None:
        out.append("chained addition")
    if (c["ms"] + td_ms % MS_DAY) >= MS_DAY:
        out.append("carry")
    if total % MS_DAY == 0 and td_ms:
        out.append("lands on midnight")
    if total // MS_DAY > 65535:
        out.append("overflow")
    if total // MS_DAY == 65535:
        out.append("last day")
    return out


# ---- day conversion helpers -----------------------------------------------------------------------------


def check_convert(d):
    from spacepackets.ccsds.time import common

    devs = []
    eq(devs, "convert.to_unix", common.convert_ccsds_days_to_unix_days(d), d - DAY_OFFSET)
    eq(devs, "convert.to_ccsds", common.convert_unix_days_to_ccsds_days(d - DAY_OFFSET), d)
    eq(devs, "convert.inverse", common.convert_unix_days_to_ccsds_days(common.convert_ccsds_days_to_unix_days(d)), d)
    return devs


# ---- refusals --------------------------------------------------------------------------------------------


def st_refuse():
    body = st.binary(min_size=6, max_size=6).map(bytes.hex)
    other_bits = st.integers(0, 255)
    return st.one_of(
        st.tuples(st.sampled_from([0, 1, 2, 3, 5, 6, 7]), other_bits, body).map(lambda t: {"k": "time_code", "p": ((t[1] & 0x8F) | (t[0] << 4)) & 0xFB, "body": t[2]}),
        st.tuples(other_bits, body).map(lambda t: {"k": "days24", "p": (t[0] & 0x83) | 0x40 | 0x04, "body": t[1]}),
        st.tuples(st.integers(0, 6), body).map(lambda t: {"k": "short", "n": t[0], "body": t[1]}),
    )


def check_refuse(c):
    cds = _cds()
    devs = []
    if c["k"] == "short":
        raw = (b"\x40" + bytes.fromhex(c["body"]))[: c["n"]]
    else:
        raw = bytes([c["p"]]) + bytes.fromhex(c["body"])
    expect_raise(devs, f"refuse.{c['k']}.unpack", cds.CdsShortTimestamp.unpack, raw)
    e = cds.CdsShortTimestamp.empty()
    expect_raise(devs, f"refuse.{c['k']}.read_from_raw", e.read_from_raw, raw)
    # a refused read leaves an existing stamp exactly what it was (all views still describe the old value), and it keeps working
    days, ms = 20000 + (len(raw) * 37) % 40000, (int.from_bytes(raw[-3:] or b"\x01", "big") * 7919) % MS_DAY
    s = cds.CdsShortTimestamp(days, ms)
    expect_raise(devs, f"refuse.{c['k']}.read_from_raw_on_used_stamp", s.read_from_raw, raw)
    check_views(devs, s, days, ms, f"refuse.{c['k']}.state_after_refused_read")
    if not devs:
        r = s + dt.timedelta(milliseconds=1)
        total = days * MS_DAY + ms + 1
        check_views(devs, r, total // MS_DAY, total % MS_DAY, f"refuse.{c['k']}.add_after_refused_read")
    return devs


def enum_days(tier, shard, nshards, rng):
    per_day = 2 if tier == "quick" else 24
    for d in range(65536):
        if d % nshards != shard:
            continue
        for i in range(per_day):
            ms = rng.choice(MSS) if i % 2 == 0 else rng.randrange(MS_DAY)
            yield {"days": d, "ms": ms, "tail": ""}


def _nt_codec(c):
    return (c["days"] < DAY_OFFSET and c["ms"] > 0) or c["ms"] % 1000 != 0


CLAUSES = [
    Clause(
        id="C14.codec",
        doc="(days, ms): pack == 0x40|days|ms, unpack inverse, datetime / unix-seconds views == 1958-01-01 + days + ms (tolerance 1 us / 1e-5 s)",
        strategy=lambda: st.fixed_dictionaries({"days": st_days(), "ms": st_ms(), "tail": st.binary(max_size=6).map(bytes.hex)}),
        check=check_codec,
        nontrivial=_nt_codec,
        classify=lambda c: (["pre-1970"] if c["days"] < DAY_OFFSET else ["post-1970"]) + (["sub-second"] if c["ms"] % 1000 else []) + (["pre-1970 with time of day"] if c["days"] < DAY_OFFSET and c["ms"] else []),
        required=["pre-1970", "post-1970", "sub-second", "pre-1970 with time of day"],
        n={"quick": 1500, "thorough": 20000},
    ),
    Clause(
        id="C14.days.exhaustive",
        doc="every day count 0..65535 with drawn milliseconds",
        kind="enum",
        enum=enum_days,
        check=check_codec,
        nontrivial=_nt_codec,
        shards={"quick": 8, "thorough": 16},
        exhaustive_note="all 65536 day counts x (quick: 2, thorough: 24) drawn millisecond values",
    ),
    Clause(
        id="C14.monotonic",
        doc="later timestamps map to later instants; equality iff same (days, ms)",
        strategy=st_pair,
        check=check_pair,
        nontrivial=lambda c: c["a"] != c["b"],
        n={"quick": 1500, "thorough": 15000},
    ),
    Clause(
        id="C14.from_datetime",
        doc="from_datetime over 1958-01-01..2137-06-06 at microsecond resolution: exact for whole milliseconds, within {floor, ceil} otherwise",
        strategy=st_datetime_us,
        check=check_from_datetime,
        nontrivial=lambda us: us % 1_000_000 != 0,
        classify=_cls_dt,
        required=["whole ms", "sub-ms", "pre-1970", "sub-second"],
        n={"quick": 3000, "thorough": 40000},
    ),
    Clause(
        id="C14.add",
        doc="stamp + non-negative timedelta == integer arithmetic on total milliseconds, normalised, OverflowError iff day count > 65535",
        strategy=st_add,
        check=check_add,
        nontrivial=lambda c: bool(_cls_add(c)),
        classify=_cls_add,
        required=["carry", "lands on midnight", "overflow", "last day", "views read before the addition", "chained addition"],
        n={"quick": 2500, "thorough": 30000},
    ),
    Clause(
        id="C14.convert",
        doc="unix-days / ccsds-days helpers are mutually inverse with offset 4383",
        strategy=lambda: st.one_of(st.integers(-70000, 140000), st.sampled_from(DAYS)),
        check=check_convert,
        n={"quick": 500, "thorough": 3000},
    ),
    Clause(
        id="C14.refuse",
        doc="time-code id != 0b100, 24-bit-day flag and short input are refused with ValueError",
        strategy=st_refuse,
        check=check_refuse,
        classify=lambda c: [c["k"]],
        required=["time_code", "days24", "short"],
        n={"quick": 600, "thorough": 4000},
    ),
]

from ..names_check import names_clause  # noqa: E402

if names_clause("C14") is not None:
    CLAUSES.append(names_clause("C14"))

from ..envcheck import env_clauses  # noqa: E402

CLAUSES.extend(env_clauses("C14", ("fields",), n_quick=2, n_thorough=30))

PROPERTY = Property(
    id="C14",
    level="exploration",
    rule=(
        "(days, ms) boundary-weighted plus every day count; UTC datetimes over the whole representable range at microsecond resolution (whole-ms and pre-1970 over-weighted); "
        "(stamp, timedelta >= 0) incl. sums constructed to land exactly on midnight and on the day limit; oracle = integer arithmetic in Python datetime/timedelta; tolerance 1 us for "
        "datetimes and 1e-5 s for float seconds; non-trivial = day < 4383 with ms > 0, or a sub-second part, or an addition that carries"
    ),
    clauses=CLAUSES,
    assumptions=[
        "datetime/timedelta integer arithmetic is the reference; float unix seconds compared with tolerance 1e-5 s (double spacing at 5.6e9 s is ~1e-6 s)",
        "P-field bits other than time-code id and the 24-bit-day flag are not constrained; negative timedeltas are outside the statement",
    ],
)
