"""C15 - request IDs and service-1 verification reports identify the telecommand exactly."""
from __future__ import annotations

from hypothesis import strategies as st

from ..core import Clause, Dev, eq, expect_raise, true
from ..prop import Property
from ..ref import ccsds as RC
from ..ref import pus as RP
from ..strategies import hexblob, uint

WIDTHS = (1, 2, 4, 8)


def _m():
    from spacepackets.ccsds import spacepacket as sp
    from spacepackets.ecss import pus_1_verification as s1
    from spacepackets.ecss.fields import PacketFieldEnum
    from spacepackets.ecss.req_id import RequestId
    from spacepackets.ecss.tc import PusTc

    return sp, s1, PacketFieldEnum, RequestId, PusTc


def build_req_id(u32):
    sp, _, _, RequestId, _ = _m()
    w0, w1 = u32 >> 16, u32 & 0xFFFF
    return RequestId(sp.PacketId(sp.PacketType((w0 >> 12) & 1), bool((w0 >> 11) & 1), w0 & 0x7FF), sp.PacketSeqCtrl(sp.SequenceFlags(w1 >> 14), w1 & 0x3FFF), w0 >> 13)


def obs_req_id(r):
    return {
        "ver": int(r.ccsds_version), "ptype": int(r.tc_packet_id.ptype), "shf": int(bool(r.tc_packet_id.sec_header_flag)), "apid": int(r.tc_packet_id.apid),
        "flags": int(r.tc_psc.seq_flags), "count": int(r.tc_psc.seq_count),
    }


def check_req_id(c):
    sp, _, _, RequestId, PusTc = _m()
    devs = []
    u32 = c["u32"]
    raw = u32.to_bytes(4, "big")
    tail = bytes.fromhex(c.get("tail", ""))
    p = RC.parse_sp_header(raw + b"\x00\x00")
    want = {k: p[k] for k in ("ver", "ptype", "shf", "apid", "flags", "count")}
    r = build_req_id(u32)
    eq(devs, "ctor.pack", bytes(r.pack()), raw)
    eq(devs, "ctor.as_u32", r.as_u32(), u32)
    for tag, buf in (("exact", raw), ("tail", raw + tail), ("bytearray", bytearray(raw + tail))):
        d = RequestId.unpack(buf)
        eq(devs, f"unpack.fields.{tag}", obs_req_id(d), want)
        eq(devs, f"unpack.as_u32.{tag}", d.as_u32(), u32)
        eq(devs, f"unpack.pack.{tag}", bytes(d.pack()), raw)
        true(devs, f"unpack.eq.{tag}", d == r and hash(d) == hash(r), "decoded request id != constructed one (or hashes differ)")
    h = sp.SpacePacketHeader.unpack(raw + (7).to_bytes(2, "big"))
    f = RequestId.from_sp_header(h)
    eq(devs, "from_sp_header.pack", bytes(f.pack()), raw)
    eq(devs, "from_sp_header.as_u32", f.as_u32(), u32)
    # a real telecommand with this APID / sequence count: request id == first four packed octets
    tc = PusTc(service=17, subservice=1, apid=p["apid"], seq_count=p["count"])
    t = RequestId.from_pus_tc(tc)
    eq(devs, "from_pus_tc.pack", bytes(t.pack()), bytes(tc.pack()[:4]))
    eq(devs, "from_pus_tc.as_u32", t.as_u32(), int.from_bytes(tc.pack()[:4], "big"))
    # a request id taken from a header that its owner changes afterwards (the id shares the header's words): whatever value it then
    # reports, equality and hash follow that value - also when the id had been hashed before
    h2 = sp.SpacePacketHeader.unpack(raw + (7).to_bytes(2, "big"))
    rid = RequestId.from_sp_header(h2)
    hash(rid)
    h2.seq_count = (p["count"] + 1) % 16384
    h2.apid = (p["apid"] + 1) % 2048
    twin = RequestId.unpack(rid.as_u32().to_bytes(4, "big"))
    true(devs, "shared_header_changed.eq", rid == twin and twin == rid, "request id != id decoded from its own 32 bits")
    true(devs, "shared_header_changed.hash", hash(rid) == hash(twin), "equal request ids hash differently after the shared header was changed")
    true(devs, "shared_header_changed.dict", {rid: 1}.get(twin) == 1, "equal request id not found as dictionary key")
    # telecommands that carry exactly these 32 bits (any version, type, flags): decoded from octets, and adopted from a header
    from ..ref.crc import crc_bytes as _crc

    if p["shf"]:
        body = raw + (7).to_bytes(2, "big") + bytes([0x2F, 17, 1, 0, 0]) + b"\xab"
        tc_raw = body + _crc(body)
        for tag, tc2 in (("unpacked_tc", PusTc.unpack(tc_raw)), ("tc_from_sp_header", PusTc.from_sp_header(sp.SpacePacketHeader.unpack(raw + b"\x00\x00"), service=17, subservice=1, app_data=b"\xab"))):
            if tag == "tc_from_sp_header" and not p["ptype"]:
                continue  # from_sp_header documents that it forces the TC type bit
            t2 = RequestId.from_pus_tc(tc2)
            eq(devs, f"from_pus_tc.{tag}.pack", bytes(t2.pack()), bytes(tc2.pack()[:4]))
            eq(devs, f"from_pus_tc.{tag}.as_u32", t2.as_u32(), int.from_bytes(bytes(tc2.pack()[:4]), "big"))
            true(devs, f"from_pus_tc.{tag}.eq_from_sp_header", t2 == RequestId.from_sp_header(tc2.sp_header) and hash(t2) == hash(RequestId.from_sp_header(tc2.sp_header)),
                 "from_pus_tc and from_sp_header disagree for the same telecommand")
    return devs


def enum_req_ids(tier, shard, nshards, rng):
    for v in range(65536):
        if v % nshards != shard:
            continue
        yield {"u32": (v << 16) | rng.getrandbits(16), "tail": "ab" if v % 3 == 0 else ""}
        yield {"u32": (rng.getrandbits(16) << 16) | v, "tail": ""}


def st_req_pair():
    one = st.one_of(uint(32), st.tuples(uint(16), uint(16)).map(lambda t: (t[0] << 16) | t[1]))
    return one.flatmap(lambda a: st.tuples(st.just(a), st.one_of(st.just(a), one, st.integers(0, 31).map(lambda b: a ^ (1 << b))))).map(lambda t: {"a": t[0], "b": t[1]})


def check_req_pair(c):
    devs = []
    a, b = build_req_id(c["a"]), build_req_id(c["b"])
    same = c["a"] == c["b"]
    eq(devs, "pair.eq", bool(a == b), same, f"{c['a']:#010x} vs {c['b']:#010x}")
    eq(devs, "pair.eq_sym", bool(b == a), same)
    if same:
        true(devs, "pair.hash", hash(a) == hash(b), "equal request ids hash differently")
        true(devs, "pair.dict", {a: 1}.get(b) == 1, "equal request id not found as dictionary key")
    else:
        true(devs, "pair.dict_distinct", len({a: 1, b: 2}) == 2, "distinct request ids collapsed in a dictionary")
    # two ids built around the SAME PacketId / PacketSeqCtrl objects (as a caller does who derives several ids from one header), differing
    # in the version number only: different 32-bit values, so not equal
    sp, s1, PFE, RequestId, PusTc = _m()
    pid, psc = a.tc_packet_id, a.tc_psc
    va = (c["a"] >> 29) & 7
    for vb in {(va + 1) % 8, (va + 5) % 8, (c["b"] >> 29) & 7} - {va}:
        x, y = RequestId(pid, psc, va), RequestId(pid, psc, vb)
        true(devs, "pair.shared_sub_objects_other_version.ne", not (x == y) and not (y == x), f"ids with versions {va} and {vb} built from the same sub-objects compare equal")
        eq(devs, "pair.shared_sub_objects_other_version.u32", (x.as_u32() ^ y.as_u32()) >> 29, va ^ vb)
    return devs


# ---- service 1 reports -----------------------------------------------------------------------------------


def st_report():
    def for_sub(sub):
        has_step = sub in (5, 6)
        has_fail = sub % 2 == 0
        step = st.sampled_from(WIDTHS).flatmap(lambda w: st.tuples(st.just(w), uint(8 * w)).map(list)) if has_step else st.none()
        err = st.sampled_from(WIDTHS).flatmap(lambda w: st.tuples(st.just(w), uint(8 * w)).map(list)) if has_fail else st.none()
        return st.fixed_dictionaries(
            {
                "sub": st.just(sub), "req_id": st.one_of(uint(32), st.tuples(uint(11), uint(14)).map(lambda t: (0x1800 | t[0]) << 16 | 0xC000 | t[1])),
                "step": step, "err": err, "fail_data": hexblob(32) if has_fail else st.just(""),
                "apid": uint(11), "seq": uint(14), "ts": st.one_of(st.just(7), st.integers(0, 16)).flatmap(lambda n: st.binary(min_size=n, max_size=n)).map(bytes.hex),
                "ver": st.sampled_from([0, 0, 1, 7]), "time_ref": st.integers(0, 15), "dest_id": uint(16),
            }
        )

    return st.integers(1, 8).flatmap(for_sub)


def _field(PFE, wv, helper: bool):
    """A step id / error code of width wv[0]: through the generic constructor or through the documented fixed-width helper class."""
    from spacepackets.ecss import fields as F

    w, v = wv
    if helper and w in (1, 2, 4):
        return {1: F.PacketFieldU8, 2: F.PacketFieldU16, 4: F.PacketFieldU32}[w](v)
    return PFE.with_byte_size(w, v)


def build_report(c, helper_fields=False, int_subservice=False):
    sp, s1, PFE, RequestId, PusTc = _m()
    step = None if c["step"] is None else _field(PFE, c["step"], helper_fields)
    fail = None if c["err"] is None else s1.FailureNotice(_field(PFE, c["err"], helper_fields), bytes.fromhex(c["fail_data"]))
    params = s1.VerificationParams(build_req_id(c["req_id"]), step, fail)
    return s1.Service1Tm(apid=c["apid"], subservice=(c["sub"] if int_subservice else s1.Subservice(c["sub"])), timestamp=bytes.fromhex(c["ts"]), verif_params=params, seq_count=c["seq"],
                         packet_version=c["ver"], space_time_ref=c["time_ref"], destination_id=c["dest_id"])


def want_source_data(c) -> bytes:
    b = c["req_id"].to_bytes(4, "big")
    if c["step"] is not None:
        b += c["step"][1].to_bytes(c["step"][0], "big")
    if c["err"] is not None:
        b += c["err"][1].to_bytes(c["err"][0], "big") + bytes.fromhex(c["fail_data"])
    return b


def obs_report(r):
    step = r.step_id
    fn = r.failure_notice
    return {
        "req_id": r.tc_req_id.as_u32(), "step": None if step is None else [step.len(), int(step.val)],
        "err": None if fn is None else [fn.code.len(), int(fn.code.val)], "fail_data": "" if fn is None else bytes(fn.data).hex(),
        "error_code": None if r.error_code is None else int(r.error_code.val), "sub": int(r.subservice), "service": int(r.service),
        "has_failure_notice": bool(r.has_failure_notice), "is_step_reply": bool(r.is_step_reply),
    }


def want_report_obs(c):
    return {
        "req_id": c["req_id"], "step": c["step"], "err": c["err"], "fail_data": c["fail_data"], "error_code": None if c["err"] is None else c["err"][1],
        "sub": c["sub"], "service": 1, "has_failure_notice": c["sub"] % 2 == 0, "is_step_reply": c["sub"] in (5, 6),
    }


def check_report(c):
    sp, s1, PFE, RequestId, PusTc = _m()
    devs = []
    ts = bytes.fromhex(c["ts"])
    src = want_source_data(c)
    want = RP.pus_tm(c["apid"], c["seq"], 1, c["sub"], 0, c["dest_id"], c["time_ref"], ts, src, ver=c["ver"])
    r = build_report(c)
    eq(devs, "enc.source_data", bytes(r.source_data), src)
    eq(devs, "enc.bytes", bytes(r.pack()), want)
    eq(devs, "enc.obs", obs_report(r), want_report_obs(c))
    up = s1.UnpackParams(len(ts), c["step"][0] if c["step"] else 1, c["err"][0] if c["err"] else 1)
    for tag, buf in (("bytes", bytes(want)), ("bytearray", bytearray(want))):
        d = s1.Service1Tm.unpack(buf, up)
        eq(devs, f"dec.obs.{tag}", obs_report(d), want_report_obs(c))
        eq(devs, f"dec.repack.{tag}", bytes(d.pack()), want)
        eq(devs, f"dec.timestamp.{tag}", bytes(d.timestamp), ts)
        true(devs, f"dec.eq.{tag}", bool(d == r) and bool(r == d), "decoded report != original")
    # from_tm route
    from spacepackets.ecss.tm import PusTm

    d2 = s1.Service1Tm.from_tm(PusTm.unpack(want, len(ts)), up)
    eq(devs, "from_tm.obs", obs_report(d2), want_report_obs(c))
    # the failure notice decoded on its own, field by field out of the source data, with the failure-data length given explicitly
    if c["err"] is not None:
        fd = bytes.fromhex(c["fail_data"])
        fn_raw = c["err"][1].to_bytes(c["err"][0], "big") + fd
        for tag, buf, n in (("implicit_rest", fn_raw, None), ("explicit_len", fn_raw + b"\xc3\x5a\x00", len(fd)), ("explicit_len_exact", fn_raw, len(fd))):
            fnd = s1.FailureNotice.unpack(buf, c["err"][0], n)
            eq(devs, f"failure_notice.{tag}.code", (fnd.code.len(), int(fnd.code.val)), (c["err"][0], c["err"][1]))
            eq(devs, f"failure_notice.{tag}.data", bytes(fnd.data), fd)
            eq(devs, f"failure_notice.{tag}.repack", bytes(fnd.pack()), fn_raw)
            eq(devs, f"failure_notice.{tag}.len", fnd.len(), len(fn_raw))
    # the subservice given as the plain integer a decoder exposes
    ri = build_report(c, int_subservice=True)
    eq(devs, "int_subservice.bytes", bytes(ri.pack()), want)
    eq(devs, "int_subservice.obs", obs_report(ri), want_report_obs(c))
    true(devs, "int_subservice.eq_decoded", bool(s1.Service1Tm.unpack(want, up) == ri), "decoded report != report built with an integer subservice")
    # step id / error code given through the fixed-width helper classes
    rh = build_report(c, helper_fields=True)
    eq(devs, "helper_fields.bytes", bytes(rh.pack()), want)
    dh = s1.Service1Tm.unpack(want, up)
    true(devs, "helper_fields.eq", bool(dh == rh) and bool(rh == dh), "decoded report != original built with PacketFieldU8/U16/U32 fields")
    if c["step"] is not None:
        true(devs, "helper_fields.step_id_eq", bool(dh.step_id == rh.step_id) and bool(rh.step_id == dh.step_id), "decoded step id != original helper-class step id")
    if c["err"] is not None:
        true(devs, "helper_fields.failure_notice_eq", bool(dh.failure_notice == rh.failure_notice), "decoded failure notice != original with helper-class error code")
    # the width of a step id / error code re-declared in place (plain attribute `pfc`, as the repository's own tests do) before the report is built
    other_w = {1: 2, 2: 4, 4: 8, 8: 1}

    def redeclared(wv):
        f = PFE.with_byte_size(other_w[wv[0]], 0)
        f.pfc = 8 * wv[0]
        f.val = wv[1]
        return f

    if c["step"] is not None or c["err"] is not None:
        step_r = None if c["step"] is None else redeclared(c["step"])
        fail_r = None if c["err"] is None else s1.FailureNotice(redeclared(c["err"]), bytes.fromhex(c["fail_data"]))
        rr = s1.Service1Tm(apid=c["apid"], subservice=s1.Subservice(c["sub"]), timestamp=ts, verif_params=s1.VerificationParams(build_req_id(c["req_id"]), step_r, fail_r), seq_count=c["seq"],
                           packet_version=c["ver"], space_time_ref=c["time_ref"], destination_id=c["dest_id"])
        eq(devs, "width_redeclared_in_place.bytes", bytes(rr.pack()), want)
        eq(devs, "width_redeclared_in_place.obs", obs_report(rr), want_report_obs(c))
        true(devs, "width_redeclared_in_place.eq_decoded", bool(s1.Service1Tm.unpack(want, up) == rr), "decoded report != report whose field widths were re-declared in place")
    # a report built from a telecommand's header (the id shares the header's objects); the telecommand then moves on to its next sequence
    # count: the report, packed again, still names the request it was built for
    tc_hdr = sp.SpacePacketHeader(packet_type=sp.PacketType.TC, apid=(c["req_id"] >> 16) & 0x7FF, seq_count=c["req_id"] & 0x3FFF, data_len=0, sec_header_flag=bool((c["req_id"] >> 27) & 1),
                                  seq_flags=sp.SequenceFlags((c["req_id"] >> 14) & 3), ccsds_version=(c["req_id"] >> 29) & 7)
    if (c["req_id"] >> 28) & 1:
        rid_live = RequestId.from_sp_header(tc_hdr)
        step_l = None if c["step"] is None else PFE.with_byte_size(*c["step"])
        fail_l = None if c["err"] is None else s1.FailureNotice(PFE.with_byte_size(*c["err"]), bytes.fromhex(c["fail_data"]))
        rl = s1.Service1Tm(apid=c["apid"], subservice=s1.Subservice(c["sub"]), timestamp=ts, verif_params=s1.VerificationParams(rid_live, step_l, fail_l), seq_count=c["seq"],
                           packet_version=c["ver"], space_time_ref=c["time_ref"], destination_id=c["dest_id"])
        eq(devs, "report_of_live_tc.bytes", bytes(rl.pack()), want)
        tc_hdr.seq_count = (tc_hdr.seq_count + 1) % 16384
        tc_hdr.apid = (tc_hdr.apid + 1) % 2048
        eq(devs, "report_of_live_tc.repack_after_tc_moved_on", bytes(rl.pack()), want)
    # one UnpackParams object serves a whole downlink: decoding must not change it, and a report of another kind decoded
    # earlier with the same object must not influence this one
    w_step, w_err = (c["step"][0] if c["step"] else 1), (c["err"][0] if c["err"] else 1)
    up2 = s1.UnpackParams(len(ts), w_step, w_err)
    before = (up2.timestamp_len, up2.bytes_step_id, up2.bytes_err_code)
    other_sub = {1: 6, 2: 5, 3: 6, 4: 5, 5: 2, 6: 1, 7: 6, 8: 5}[c["sub"]]
    oc = dict(c, sub=other_sub, step=[w_step, 1] if other_sub in (5, 6) else None, err=[w_err, 2] if other_sub % 2 == 0 else None,
              fail_data="0a0b" if other_sub % 2 == 0 else "")
    other_raw = RP.pus_tm(oc["apid"], oc["seq"], 1, oc["sub"], 0, oc["dest_id"], oc["time_ref"], ts, want_source_data(oc), ver=oc["ver"])
    eq(devs, "shared_params.other_report", obs_report(s1.Service1Tm.unpack(other_raw, up2)), want_report_obs(oc))
    eq(devs, "shared_params.unchanged_by_decode", (up2.timestamp_len, up2.bytes_step_id, up2.bytes_err_code), before, "Service1Tm.unpack modified the caller's UnpackParams")
    eq(devs, "shared_params.this_report_after_other", obs_report(s1.Service1Tm.unpack(want, up2)), want_report_obs(c))
    eq(devs, "shared_params.unchanged_by_second_decode", (up2.timestamp_len, up2.bytes_step_id, up2.bytes_err_code), before, "Service1Tm.unpack modified the caller's UnpackParams")
    return devs


def _nt_report(c):
    return (c["step"] is not None and c["step"][0] != 1) or (c["err"] is not None and c["err"][0] != 1) or (c["step"] is not None and c["fail_data"] != "") or (c["req_id"] >> 29) != 0


def _cls_report(c):
    out = [f"subservice {c['sub']}"]
    if c["step"] and c["step"][0] != 1:
        out.append("wide step id")
    if c["err"] and c["err"][0] != 1:
        out.append("wide error code")
    if c["step"] and c["fail_data"]:
        out.append("step + failure data")
    if c["req_id"] >> 29:
        out.append("version bits != 0")
    return out


# ---- helper constructors ----------------------------------------------------------------------------------


def st_helper():
    return st.fixed_dictionaries(
        {"sub": st.integers(1, 8), "tc_apid": uint(11), "tc_seq": uint(14), "apid": uint(11), "step": st.sampled_from(WIDTHS).flatmap(lambda w: st.tuples(st.just(w), uint(8 * w)).map(list)),
         "err": st.sampled_from(WIDTHS).flatmap(lambda w: st.tuples(st.just(w), uint(8 * w)).map(list)), "fail_data": hexblob(16), "ts": st.binary(max_size=9).map(bytes.hex)}
    )


def check_helper(c):
    sp, s1, PFE, RequestId, PusTc = _m()
    devs = []
    tc = PusTc(service=8, subservice=1, apid=c["tc_apid"], seq_count=c["tc_seq"], app_data=b"\x01\x02")
    ts = bytes.fromhex(c["ts"])
    step = PFE.with_byte_size(*c["step"])
    fail = s1.FailureNotice(PFE.with_byte_size(*c["err"]), bytes.fromhex(c["fail_data"]))
    sub = c["sub"]
    fn = {
        1: lambda: s1.create_acceptance_success_tm(c["apid"], tc, ts), 2: lambda: s1.create_acceptance_failure_tm(c["apid"], tc, fail, ts),
        3: lambda: s1.create_start_success_tm(c["apid"], tc, ts), 4: lambda: s1.create_start_failure_tm(c["apid"], tc, fail, ts),
        5: lambda: s1.create_step_success_tm(c["apid"], tc, step, ts), 6: lambda: s1.create_step_failure_tm(c["apid"], tc, step, fail, ts),
        7: lambda: s1.create_completion_success_tm(c["apid"], tc, ts), 8: lambda: s1.create_completion_failure_tm(c["apid"], tc, fail, ts),
    }[sub]
    r = fn()
    req = bytes(tc.pack()[:4])
    src = req + (c["step"][1].to_bytes(c["step"][0], "big") if sub in (5, 6) else b"") + ((c["err"][1].to_bytes(c["err"][0], "big") + bytes.fromhex(c["fail_data"])) if sub % 2 == 0 else b"")
    eq(devs, "helper.source_data", bytes(r.source_data), src)
    eq(devs, "helper.subservice", int(r.subservice), sub)
    eq(devs, "helper.bytes", bytes(r.pack()), RP.pus_tm(c["apid"], 0, 1, sub, 0, 0, 0, ts, src))
    d = s1.Service1Tm.unpack(bytes(r.pack()), s1.UnpackParams(len(ts), c["step"][0], c["err"][0]))
    eq(devs, "helper.dec.req_id", bytes(d.tc_req_id.pack()), req)
    true(devs, "helper.dec.eq", bool(d == r), "decoded helper-built report != original")
    return devs


# ---- parameter sets that do not match the subservice -------------------------------------------------------


def enum_param_sets(tier, shard, nshards, rng):
    for sub in range(1, 9):
        for has_step in (False, True):
            for has_fail in (False, True):
                yield {"sub": sub, "has_step": has_step, "has_fail": has_fail}


def check_param_set(c):
    sp, s1, PFE, RequestId, PusTc = _m()
    devs = []
    sub = c["sub"]
    step = PFE.with_byte_size(1, 3) if c["has_step"] else None
    fail = s1.FailureNotice(PFE.with_byte_size(2, 7), b"\x01") if c["has_fail"] else None
    params = s1.VerificationParams(build_req_id(0x1801C005), step, fail)
    valid = (c["has_fail"] == (sub % 2 == 0)) and (c["has_step"] == (sub in (5, 6)))

    def mk():
        return s1.Service1Tm(apid=1, subservice=s1.Subservice(sub), timestamp=b"", verif_params=params)

    if valid:
        r = mk()
        eq(devs, "params.valid.sub", int(r.subservice), sub)
    else:
        expect_raise(devs, f"params.mismatch.sub{sub}.step{int(c['has_step'])}.fail{int(c['has_fail'])}", mk, accept=(s1.InvalidVerifParams,))
    return devs


CLAUSES = [
    Clause(
        id="C15.req_id.exhaustive",
        doc="all 2^16 packet-id words x drawn PSC and all 2^16 PSC words x drawn id: pack / as_u32 / unpack / from_sp_header agree; == first 4 octets of a TC",
        kind="enum",
        enum=enum_req_ids,
        check=check_req_id,
        nontrivial=lambda c: (c["u32"] >> 29) != 0 or ((c["u32"] >> 16) & 0x7FF) > 0xFF,
        classify=lambda c: (["version bits != 0"] if c["u32"] >> 29 else []) + (["tail"] if c.get("tail") else []),
        required=["version bits != 0", "tail"],
        shards={"quick": 8, "thorough": 16},
        exhaustive_note="2 x 65536 request ids: every value of the upper word, every value of the lower word",
    ),
    Clause(
        id="C15.req_id.pairs",
        doc="two request ids are equal (and hash equal) iff their 32 bits are equal",
        strategy=st_req_pair,
        check=check_req_pair,
        nontrivial=lambda c: c["a"] != c["b"],
        classify=lambda c: ["equal"] if c["a"] == c["b"] else (["one bit differs"] if bin(c["a"] ^ c["b"]).count("1") == 1 else ["different"]),
        required=["equal", "one bit differs", "different"],
        n={"quick": 1500, "thorough": 15000},
    ),
    Clause(
        id="C15.report",
        doc="service-1 reports: source data == request id | step id | error code | failure data; decode with matching widths returns the same, re-packs, == original",
        strategy=st_report,
        check=check_report,
        nontrivial=_nt_report,
        classify=_cls_report,
        required=[f"subservice {i}" for i in range(1, 9)] + ["wide step id", "wide error code", "step + failure data", "version bits != 0"],
        n={"quick": 1500, "thorough": 12000},
    ),
    Clause(
        id="C15.helpers",
        doc="the eight create_*_tm helpers carry the telecommand's first four octets and the given step id / failure notice",
        strategy=st_helper,
        check=check_helper,
        classify=lambda c: [f"subservice {c['sub']}"],
        required=[f"subservice {i}" for i in range(1, 9)],
        n={"quick": 600, "thorough": 5000},
    ),
    Clause(
        id="C15.param_sets.exhaustive",
        doc="all 8 x 2 x 2 (subservice, has step id, has failure notice) combinations: mismatching ones raise InvalidVerifParams",
        kind="enum",
        enum=enum_param_sets,
        check=check_param_set,
        exhaustive_note="all 32 (subservice, step id present, failure notice present) combinations",
    ),
]

from ..names_check import names_clause  # noqa: E402

if names_clause("C15") is not None:
    CLAUSES.append(names_clause("C15"))

from .. import decoders as D  # noqa: E402
from ..envcheck import env_clauses  # noqa: E402

CLAUSES.extend(env_clauses("C15", ("pus",), more_of="Service1Tm.unpack", more=12))

PROPERTY = Property(
    id="C15",
    level="exploration",
    rule=(
        "request ids: each 16-bit half enumerated completely plus boundary-weighted 32-bit values and pairs differing in one bit; reports: request id over all 32 bits (incl. version bits), "
        "subservice 1..8, step-id / error-code widths 1/2/4/8 with boundary-weighted values, failure data 0..32 octets, timestamp length 0..16; oracle = reference PUS TM encoder + "
        "explicit source-data layout; non-trivial = width != 1 or failure data with a step id or version bits != 0"
    ),
    clauses=CLAUSES,
    assumptions=["vf/ref/pus.py is the trusted TM layout; the request-id layout is the first four octets of the reference space packet header"],
)
