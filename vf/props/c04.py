"""C04 - a corrupted CRC-protected packet is never accepted as valid (fault enumeration)."""
from __future__ import annotations

import copy
import os
import itertools
import random

from hypothesis import strategies as st

from .. import cfdp_model as M
from ..core import Clause, Dev, eq, true
from ..excs import allowed
from ..prop import Property
from ..ref import pus as RP
from ..ref.crc import crc_bytes
from ..strategies import hexblob
from . import c02, c03, c11


def faults_for(n_octets: int, excluded_bits: set, rng: random.Random, patterns_per_len: int, all_small: bool):
    """All single-bit flips and, for every admissible start bit and every length 2..16, burst patterns
    (first and last bit set) that touch no excluded bit.  Yields (start_bit, length, pattern_int)."""
    nbits = n_octets * 8
    for b in range(nbits):
        if b not in excluded_bits:
            yield b, 1, 1
    for L in range(2, 17):
        inner = L - 2
        for s in range(0, nbits - L + 1):
            if any((s + i) in excluded_bits for i in range(L)):
                continue
            if all_small and inner <= 6:
                mids = range(1 << inner)
            else:
                mids = {rng.getrandbits(inner) if inner else 0 for _ in range(patterns_per_len)}
            for mid in mids:
                yield s, L, (1 << (L - 1)) | (mid << 1) | 1


_NEAR = {}
NEAR_TARGETS = [1 << j for j in range(16)] + [0x00FF, 0xFF00, 0x8001, 0xFFFF, 0x1021]


def near_zero_faults(raw: bytes, excluded_bits: set):
    """Bursts (inside one 16-bit window, octet aligned) that leave a checksum residue *close to* zero: exactly one bit set, one
    octet zero, ... .  A checker that looks at part of the residue only lets exactly these through; random bursts hit one with
    probability 2^-16 each.  CRC-16 is linear in the error pattern and the residue of a pattern depends only on its distance d
    from the end of the buffer, so the 16 x 16 system over GF(2) is solved once per d.  Yields (octet position, corrupted buffer, target)."""
    from ..ref.crc import crc16_fast

    n = len(raw)
    positions = [pos for pos in range(n - 1) if not any(b in excluded_bits for b in range(pos * 8, pos * 8 + 16))]
    if len(positions) > 10 and os.environ.get("VERIF_TIER_ACTIVE") != "thorough":
        # quick tier: the trailer, the octet before it, the first admissible window and six windows chosen by the packet's own octets
        pick = random.Random(raw)
        positions = sorted({positions[0], positions[-1], positions[-2], positions[-3]} | set(pick.sample(positions, 6)))
    for pos in positions:
        d = n - pos
        if d not in _NEAR:
            c0 = crc16_fast(bytes(d))
            cols = [crc16_fast((1 << bit).to_bytes(2, "big") + bytes(d - 2)) ^ c0 for bit in range(16)]
            sol = {}
            for target in NEAR_TARGETS:
                rows = [(cols[i], 1 << i) for i in range(16)]
                want, x = target, 0
                for b in range(15, -1, -1):
                    piv = next((r for r in rows if (r[0] >> b) & 1), None)
                    if piv is None:
                        continue
                    rows = [r if r is piv or not ((r[0] >> b) & 1) else (r[0] ^ piv[0], r[1] ^ piv[1]) for r in rows]
                    rows.remove(piv)
                    if (want >> b) & 1:
                        want ^= piv[0]
                        x ^= piv[1]
                if want:
                    raise RuntimeError("near_zero_faults: singular system")
                sol[target] = x
            _NEAR[d] = sol
        for target, x in _NEAR[d].items():
            bad = bytearray(raw)
            bad[pos] ^= x >> 8
            bad[pos + 1] ^= x & 0xFF
            bad = bytes(bad)
            if crc16_fast(bad) != target or bad == raw:  # the construction is checked against the reference CRC: a slip here is a harness error
                raise RuntimeError(f"near_zero_faults: constructed residue {crc16_fast(bad):#06x} != {target:#06x}")
            yield pos, bad, target


def apply_fault(buf: bytes, start: int, L: int, pattern: int) -> bytes:
    out = bytearray(buf)
    for i in range(L):
        if (pattern >> (L - 1 - i)) & 1:
            bit = start + i
            out[bit // 8] ^= 0x80 >> (bit % 8)
    return bytes(out)


def crc16_is_zero(raw: bytes) -> bool:
    from ..ref.crc import crc16_fast

    return crc16_fast(raw) == 0


def run_faults(devs, raw: bytes, excluded_bits: set, decoders, case, tier_hint, verdict=None):
    """Returns the number of corrupted buffers fed to the decoders."""
    rng = random.Random(case.get("burst_seed", 0))
    ok = allowed()
    n = 0
    patterns = case.get("patterns", 1)
    thorough = os.environ.get("VERIF_TIER_ACTIVE") == "thorough"
    patterns = 4 if thorough else 1
    near = ((pos * 8, 16, target, bad) for pos, bad, target in near_zero_faults(raw, excluded_bits)) if crc16_is_zero(raw) else ()
    plain = ((s, L, pat, apply_fault(raw, s, L, pat)) for s, L, pat in faults_for(len(raw), excluded_bits, rng, patterns, all_small=thorough and len(raw) <= 24))
    for s, L, pat, bad in itertools.chain(near, plain):
        n += 1
        for dname, dec in decoders:
            try:
                r = dec(bad)
            except ok:
                continue
            except Exception as e:  # noqa: BLE001 - classify undocumented escapes
                from ..core import exc_sub

                sub = exc_sub(e)
                if sub is None:
                    raise
                devs.append(Dev(f"corrupted.{dname}.{sub}", f"fault bit {s} len {L} pattern {pat:#x}: {type(e).__name__}: {e}"))
                return n
            if r is None and dname == "factory":
                continue  # unknown directive code: no packet object returned
            devs.append(Dev(f"corrupted.{dname}.accepted", f"fault at bit {s} (octet {s // 8}) length {L} pattern {pat:#x} was accepted: {bad.hex()[:80]}"))
            return n
        if verdict is not None and verdict(bad) is not False:
            devs.append(Dev("corrupted.check_pus_crc", f"standalone CRC check accepted a corrupted packet (bit {s} len {L})"))
            return n
    return n


def bits_of_octets(octets):
    return {o * 8 + i for o in octets for i in range(8)}


# ---- PUS -------------------------------------------------------------------------------------------


def st_pus(kind):
    # half of the packets are built so that the CRC over a structural prefix (primary header / primary + secondary header) is 0x0000:
    # intermediate checksum states that a chunk-wise implementation passes through and that random fields hit with probability 2^-16
    if kind == "tc":
        plain = c02._st_tc_plain(())
        zero = st.tuples(plain, st.sampled_from([6, 11])).map(lambda t: c02.crc_zero_prefix_tc({**_shrink_data(t[0]), "_zero_at": t[1]}, max_n=48))
    else:
        plain = c03._st_tm_plain(())
        zero = st.tuples(plain, st.sampled_from([6, 13])).map(lambda t: c03.crc_zero_prefix_tm({**_shrink_data(t[0]), "_zero_at": t[1]}, max_n=48))
    base = st.one_of(plain.map(_shrink_data), zero)
    return st.tuples(base, st.integers(0, 2**32 - 1), st.booleans()).map(lambda t: {"kind": kind, "p": _expand(t[0]), "burst_seed": t[1], "patterns": 1, "refused_first": t[2]})


def _expand(p):
    """Compact long data descriptions are written out (the fault loops index the octets)."""
    from ..strategies import expand_fill

    p = dict(p)
    for k in ("app_data", "source_data"):
        if k in p and isinstance(p[k], dict):
            p[k] = expand_fill(p[k]).hex()
    return p


def _shrink_data(p):
    p = dict(p)
    for k in ("app_data", "source_data"):
        if k in p and isinstance(p[k], str):
            p[k] = p[k][:32]
    if "timestamp" in p:
        p["timestamp"] = p["timestamp"][:16]
    return p


def _cls_pus(case):
    from ..ref.crc import crc16_fast

    p = case["p"]
    if case["kind"] == "tc":
        raw = RP.pus_tc(p["apid"], p["seq"], p["service"], p["subservice"], p["source_id"], p["ack"], bytes.fromhex(p["app_data"]))
        cuts = (6, 11)
    else:
        stamp = bytes.fromhex(p["timestamp"])
        raw = RP.pus_tm(p["apid"], p["seq"], p["service"], p["subservice"], p["msg_counter"], p["dest_id"], p["time_ref"], stamp, bytes.fromhex(p["source_data"]), ver=p["ver"])
        cuts = (6, 13 + len(stamp))
    out = []
    if any(crc16_fast(raw[:k]) == 0 for k in cuts):
        out.append("crc over a structural prefix is zero")
    out.append("refused pack of another packet first")
    return out


def _refused_operations_on_other_packets(tcm, tmm):
    for mk in (lambda: tcm.PusTc(service=17, subservice=1, apid=1, source_id=0x10000), lambda: tcm.PusTc(service=256, subservice=1, apid=1),
               lambda: tmm.PusTm(service=17, subservice=2, timestamp=b"", destination_id=0x10000), lambda: tmm.PusTm(service=17, subservice=2, timestamp=b"", space_time_ref=0x100),
               lambda: tmm.PusTm(service=17, subservice=2, timestamp=b"", source_data="not octets")):
        try:
            bad = mk()
            for op in (bad.calc_crc, bad.to_space_packet, bad.pack):
                try:
                    op()
                except Exception:  # noqa: BLE001 - the refusal itself is not under test here
                    pass
        except Exception:  # noqa: BLE001
            pass


def check_pus(case):
    _, tcm, check_pus_crc = c02._m()
    _, tmm, _, _ = c03._m()
    devs = []
    p = case["p"]
    if case.get("refused_first", True) or True:
        # (always: a drawn boolean would leave this half under-sampled - Hypothesis favours False)
        # a pack of ANOTHER, invalid packet was refused just before: it must leave nothing behind that changes this packet's trailer
        for mk in (lambda: tcm.PusTc(service=17, subservice=1, apid=1, source_id=0x10000), lambda: tcm.PusTc(service=256, subservice=1, apid=1),
                   lambda: tmm.PusTm(service=17, subservice=2, timestamp=b"", destination_id=0x10000), lambda: tmm.PusTm(service=17, subservice=2, timestamp=b"", space_time_ref=0x100)):
            try:
                bad = mk()
                for op in (bad.calc_crc, bad.pack):
                    try:
                        op()
                    except Exception:  # noqa: BLE001 - the refusal itself is not under test here
                        pass
            except Exception:  # noqa: BLE001
                pass
    if case["kind"] == "tc":
        app = bytes.fromhex(p["app_data"])
        raw = bytes(c02.build_tc(tcm, p, app).pack())
        want = RP.pus_tc(p["apid"], p["seq"], p["service"], p["subservice"], p["source_id"], p["ack"], app)
        dec = [("PusTc.unpack", tcm.PusTc.unpack)]
    else:
        stamp, src = bytes.fromhex(p["timestamp"]), bytes.fromhex(p["source_data"])
        raw = bytes(c03.build_tm(tmm, p, stamp, src).pack())
        want = RP.pus_tm(p["apid"], p["seq"], p["service"], p["subservice"], p["msg_counter"], p["dest_id"], p["time_ref"], stamp, src, ver=p["ver"])
        ts = len(stamp)
        dec = [("PusTm.unpack", lambda b: tmm.PusTm.unpack(b, ts))]
    # the other routes that compute the trailer (calc_crc + pack without recalculation, the space-packet view), on a fresh object
    # each, right after operations on OTHER packets were refused: the first computation after a refusal is the one at risk
    if case["kind"] == "tc":
        mk_same = lambda: c02.build_tc(tcm, p, app)  # noqa: E731
    else:
        mk_same = lambda: c03.build_tm(tmm, p, stamp, src)  # noqa: E731
    for route in ("view", "calc"):
        _refused_operations_on_other_packets(tcm, tmm)
        o_r = mk_same()
        if route == "view":
            eq(devs, "after_refused.space_packet_view", bytes(o_r.to_space_packet().pack()), want)
        else:
            o_r.calc_crc()
            eq(devs, "after_refused.calc_crc_then_pack_without_recalc", bytes(o_r.pack(recalc_crc=False)), want)
    # the two public helpers that write a trailer into raw octets: a trailer overwritten with anything is restored; a trailer appended to
    # the octets before it gives the packet
    scrambled = bytearray(want)
    scrambled[-2] ^= 0x5A
    scrambled[-1] ^= 0xA5
    eq(devs, "helpers.generate_packet_crc", bytes(tcm.generate_packet_crc(scrambled)), want)
    eq(devs, "helpers.generate_crc", bytes(tcm.generate_crc(bytearray(want[:-2]))), want)
    eq(devs, "clean.bytes", raw, want)
    eq(devs, "clean.trailer", raw[-2:], crc_bytes(raw[:-2]), "trailer vs reference CRC of all preceding octets")
    dec[0][1](raw)  # uncorrupted packet must be accepted (an exception here is reported by the engine)
    true(devs, "clean.check_pus_crc", check_pus_crc(raw) is True, "standalone CRC check rejects an uncorrupted packet")
    # decoded out of a longer receive buffer and re-emitted unchanged with the documented recalc_crc=False: still a packet that passes
    longer = raw + b"\x18\x01\xc0\x00"
    dl = dec[0][1](longer)
    eq(devs, "decoded_from_longer_buffer.crc16", bytes(dl.crc16), raw[-2:])
    re_emitted = bytes(dl.pack(recalc_crc=False))
    eq(devs, "decoded_from_longer_buffer.repack_without_recalc", re_emitted, raw)
    true(devs, "decoded_from_longer_buffer.check_pus_crc", check_pus_crc(re_emitted) is True, "re-emitted packet fails the standalone check")
    # "whatever fields were set or changed before packing": objects that already carry a trailer (packed before / decoded) are
    # changed through their public header objects or through a caller-owned mutable data buffer, then packed with default arguments
    for tag in ("packed", "decoded"):
        if case["kind"] == "tc":
            data = bytearray(app)
            obj = c02.build_tc(tcm, p, data) if tag == "packed" else tcm.PusTc.unpack(raw)
            obj.pack()
            obj.pus_tc_sec_header.subservice = (p["subservice"] + 1) % 256
            obj.pus_tc_sec_header.source_id = (p["source_id"] + 1) % 65536
        else:
            data = bytearray(src)
            obj = c03.build_tm(tmm, p, stamp, data) if tag == "packed" else tmm.PusTm.unpack(raw, ts)
            obj.pack()
            obj.pus_tm_sec_header.message_counter = (p["msg_counter"] + 1) % 65536
            obj.pus_tm_sec_header.dest_id = (p["dest_id"] + 1) % 65536
        obj.sp_header.seq_count = (p["seq"] + 1) % 16384
        if tag == "packed" and len(data):
            data[0] ^= 0xFF  # the caller updates its own buffer in place
        again = bytes(obj.pack())
        eq(devs, f"changed_after_pack.{tag}.trailer", again[-2:], crc_bytes(again[:-2]), "trailer vs reference CRC after fields were changed through the header objects")
        true(devs, f"changed_after_pack.{tag}.check_pus_crc", check_pus_crc(again) is True, "standalone CRC check rejects the re-packed packet")
        if again[-2:] == crc_bytes(again[:-2]):
            dec[0][1](again)
    # the checksum refusal carries the decoded packet (exception attribute tc / tm): it is the packet the buffer describes - same
    # fields and data, lengths consistent - so that a caller can log or inspect what arrived
    bad_crc = bytearray(raw)
    bad_crc[-1] ^= 0x01
    try:
        dec[0][1](bytes(bad_crc))
    except Exception as e_crc:  # noqa: BLE001 - looked at below
        carried = getattr(e_crc, "tc", None) if case["kind"] == "tc" else getattr(e_crc, "tm", None)
        if carried is not None:
            data_view = bytes(carried.app_data) if case["kind"] == "tc" else bytes(carried.tm_data)
            eq(devs, "refusal_carries_packet.data", data_view, app if case["kind"] == "tc" else src)
            eq(devs, "refusal_carries_packet.packet_len_vs_pack", carried.packet_len, len(carried.pack()))
            eq(devs, "refusal_carries_packet.repacked_is_the_uncorrupted_packet", bytes(carried.pack()), raw)
    if devs:
        return devs, 1
    n = run_faults(devs, raw, bits_of_octets([4, 5]), dec, case, None, verdict=check_pus_crc)
    return devs, n + 1


# ---- CFDP ------------------------------------------------------------------------------------------


def st_cfdp(kind):
    return st.tuples(M.st_pdu(kind, M.st_conf(segctrl=(kind == "filedata"), crc=1), small=True), st.integers(0, 2**32 - 1)).map(lambda t: {"p": t[0], "burst_seed": t[1], "patterns": 1})


def cfdp_excluded_bits():
    ex = bits_of_octets([1, 2, 3])
    ex.add(6)  # octet 0, mask 0x02: the CRC flag itself (the switch that says whether a trailer exists)
    return ex


def check_cfdp(case):
    from spacepackets.cfdp.pdu.helper import PduFactory

    devs = []
    p = case["p"]
    kind = p["kind"]
    cls = M.pdu_class(kind)
    raw = bytes(M.build_pdu(p).pack())
    want = M.ref_pdu(p)
    eq(devs, "clean.bytes", raw, want)
    eq(devs, "clean.trailer", raw[-2:], crc_bytes(raw[:-2]), "trailer vs reference CRC of all preceding octets")
    cls.unpack(raw)
    PduFactory.from_raw(raw)
    # "every uncorrupted packed packet passes the check" along the sender's history: the configuration object the PDU was built from
    # is the caller's; the caller re-uses it for its next transaction (other file-size class, no checksum, other numbers) and the PDU
    # built earlier is packed again: same octets, trailer still the CRC of what precedes it, still accepted
    from spacepackets.cfdp import defs as _cd
    from spacepackets.util import ByteFieldGenerator as _G

    conf_obj = M.build_conf(p["conf"])
    pdu = M.build_pdu(p, conf_obj=conf_obj)
    first = bytes(pdu.pack())
    eq(devs, "caller_conf.first_pack", first, want)
    conf_obj.file_flag = _cd.LargeFileFlag(1 - int(p["conf"]["large"]))
    conf_obj.crc_flag = _cd.CrcFlag.NO_CRC
    conf_obj.transaction_seq_num = _G.from_int(p["conf"]["seqw"], (p["conf"]["seq"] + 1) % (1 << (8 * p["conf"]["seqw"])))
    try:
        second = bytes(pdu.pack())
        eq(devs, "caller_conf.pack_after_caller_reused_its_configuration", second, want)
        eq(devs, "caller_conf.trailer_after_caller_reused_its_configuration", second[-2:], crc_bytes(second[:-2]))
        cls.unpack(second)
    except Exception as e:  # noqa: BLE001 - an uncorrupted packed PDU must pack and pass its own decoder
        true(devs, "caller_conf.uncorrupted_pdu_accepted_after_caller_reused_its_configuration", False, f"{type(e).__name__}: {e}")
    if devs:
        return devs, 1
    n = run_faults(devs, raw, cfdp_excluded_bits(), [(f"{cls.__name__}.unpack", cls.unpack), ("factory", PduFactory.from_raw)], case, None)
    return devs, n + 1


# ---- packets whose fields were changed through setters before packing ------------------------------


def st_mutated():
    def for_kind(kind):
        if kind == "tc":
            m = c11.TcMachine()
        elif kind == "tm":
            m = c11.TmMachine()
        else:
            m = c11.PduMachine(kind)
        ops = {k: v for k, v in m.ops().items() if k.startswith("set_") or k.startswith("append_")}
        step = st.one_of([st.tuples(st.just(k), v).map(list) for k, v in ops.items()])
        init = m.init_strategy()
        if kind not in ("tc", "tm"):
            init = init.map(lambda p: {**p, "conf": {**p["conf"], "crc": 1}})
        steps = st.lists(step, min_size=1, max_size=5)
        if kind == "finished":
            # also histories that leave the valid parameter sets and come back: fault location kept while the condition code is one that forbids it,
            # another setter in between, then a code that admits it again
            detour = st.tuples(st.sampled_from([0, 11]), st.lists(M.st_fsresp_tlv(8, 4), max_size=2), st.sampled_from(M.FIN_FAULT_CCS)).map(
                lambda t: [["set_condition_code_any", t[0]], ["set_responses", t[1]], ["set_condition_code_any", t[2]]]
            )
            steps = st.one_of(steps, steps, detour, st.tuples(steps, detour).map(lambda t: t[0][:2] + t[1]))
        return st.fixed_dictionaries({"kind": st.just(kind), "init": init, "steps": steps, "burst_seed": st.integers(0, 2**32 - 1)})

    return st.sampled_from(["tc", "tm"] + list(c11.CFDP_KINDS)).flatmap(for_kind)


def check_mutated(case):
    from spacepackets.cfdp.pdu.helper import PduFactory

    _, _, check_pus_crc = c02._m()
    devs = []
    kind = case["kind"]
    if kind == "tc":
        m = c11.TcMachine()
    elif kind == "tm":
        m = c11.TmMachine()
    else:
        m = c11.PduMachine(kind)
    s = m.start(copy.deepcopy(case["init"]))
    for name, arg in case["steps"]:
        # pack - change - pack again: a cached trailer from an earlier pack must never survive a change
        if isinstance(s, dict) or not m.outside_domain(s):
            (s["o"] if isinstance(s, dict) else s.obj).pack()
        if isinstance(s, dict) or m.enabled(s, name):
            m.step(s, name, arg)
    obj = s["o"] if isinstance(s, dict) else s.obj
    if not isinstance(s, dict) and m.outside_domain(s):
        return devs, 0  # the history ended on a parameter set that is not valid (fault location under a code that forbids one)
    raw = bytes(obj.pack())
    eq(devs, "mutated.trailer", raw[-2:], crc_bytes(raw[:-2]), f"{kind}: trailer after setter calls vs reference CRC of all preceding octets")
    if kind in ("tc", "tm"):
        true(devs, "mutated.check_pus_crc", check_pus_crc(raw) is True, "standalone CRC check rejects a packet packed after setter calls")
        if kind == "tc":
            dec = [("PusTc.unpack", type(obj).unpack)]
        else:
            ts = len(s["m"]["timestamp"]) // 2
            dec = [("PusTm.unpack", lambda b: type(obj).unpack(b, ts))]
        excluded = bits_of_octets([4, 5])
        verdict = check_pus_crc
    else:
        cls = M.pdu_class(kind)
        dec = [(f"{cls.__name__}.unpack", cls.unpack)]
        excluded = cfdp_excluded_bits()
        verdict = None
    dec[0][1](raw)
    if devs:
        return devs, 1
    # a lighter fault set for these: all single-bit flips and bursts of a few lengths
    case2 = dict(case)
    n = 0
    rng = random.Random(case["burst_seed"])
    ok = allowed()
    nbits = len(raw) * 8
    def light():
        for b in range(nbits):
            L = rng.choice([1, 1, 2, 3, 8, 15, 16])
            if b + L > nbits or any((b + i) in excluded for i in range(L)):
                continue
            pat = 1 if L == 1 else (1 << (L - 1)) | (rng.getrandbits(L - 2) << 1) | 1
            yield b, L, apply_fault(raw, b, L, pat)

    near = ((pos * 8, 16, bad) for pos, bad, _ in near_zero_faults(raw, excluded)) if crc16_is_zero(raw) else ()
    for b, L, bad in itertools.chain(near, light()):
        n += 1
        try:
            dec[0][1](bad)
        except ok:
            pass
        else:
            devs.append(Dev(f"mutated.corrupted.{dec[0][0]}.accepted", f"{kind}: fault at bit {b} len {L} accepted after setter calls"))
            break
        if verdict is not None and verdict(bad) is not False:
            devs.append(Dev("mutated.corrupted.check_pus_crc", f"{kind}: standalone check accepted corrupted packet"))
            break
    return devs, n + 1


def _cls_pdu_case(case):
    return M.pdu_classes(case["p"])


CLAUSES = [
    Clause(
        id="C04.pus_tc",
        doc="PUS TC (half of them with a zero CRC over a structural prefix; half after a refused pack of another packet): trailer == reference CRC; every single-bit flip and a burst pattern for every (start bit, length 2..16) outside octets 4-5 is rejected by PusTc.unpack and by check_pus_crc",
        strategy=lambda: st_pus("tc"),
        check=check_pus,
        classify=_cls_pus,
        required=["crc over a structural prefix is zero", "refused pack of another packet first"],
        nontrivial=lambda c: True,
        n={"quick": 10, "thorough": 60},
        weight_by_evals=True,
    ),
    Clause(
        id="C04.pus_tm",
        doc="PUS TM: as above through PusTm.unpack with the packet's timestamp length",
        strategy=lambda: st_pus("tm"),
        check=check_pus,
        classify=_cls_pus,
        required=["crc over a structural prefix is zero", "refused pack of another packet first"],
        nontrivial=lambda c: True,
        n={"quick": 10, "thorough": 60},
        weight_by_evals=True,
    ),
] + [
    Clause(
        id=f"C04.cfdp.{kind}",
        doc=f"{kind} PDU with CRC: trailer == reference CRC; all single-bit flips and bursts outside octets 1-3 and the CRC-flag bit are rejected by the class decoder and by the factory",
        strategy=(lambda kind=kind: st_cfdp(kind)),
        check=check_cfdp,
        nontrivial=lambda c: True,
        classify=_cls_pdu_case,
        required=[kind, "crc on"],
        n={"quick": 5, "thorough": 40},
        weight_by_evals=True,
    )
    for kind in M.KINDS
] + [
    Clause(
        id="C04.after_setters",
        doc="packets whose fields were changed through the documented setters before packing still carry the CRC of all preceding octets and reject corruption",
        strategy=st_mutated,
        check=check_mutated,
        nontrivial=lambda c: True,
        classify=lambda c: [c["kind"]],
        required=["tc", "tm"] + list(c11.CFDP_KINDS),
        n={"quick": 200, "thorough": 2000},
        weight_by_evals=True,
    ),
]

# ---- the first checksum operation of a fresh process ------------------------------------------------------------

FIRST_OPS = ("tc.pack", "tc.calc_crc+pack_without_recalc", "tc.space_packet_view", "tm.pack", "tm.calc_crc+pack_without_recalc", "tm.space_packet_view", "check_pus_crc", "tc.unpack", "tm.unpack",
             "cfdp.pack", "cfdp.unpack")

_FIRST_OP_CHILD = r"""
import json
op = sys.argv[2]
from spacepackets.ecss.tc import PusTc
from spacepackets.ecss.tm import PusTm
from spacepackets.ecss import check_pus_crc
tc = lambda: PusTc(service=17, subservice=1, apid=0x2A5, app_data=bytes([1, 2, 3]), seq_count=0x1234, source_id=7)
tm = lambda: PusTm(service=3, subservice=25, timestamp=bytes([9, 8, 7]), source_data=bytes([0xAA, 0x55]), apid=0x155, seq_count=0x2001, message_counter=5, destination_id=9)
ref_tc, ref_tm, ref_eof = (bytes.fromhex(x) for x in sys.argv[3:6])
def cfdp_eof():
    from spacepackets.cfdp import PduConfig, CrcFlag, LargeFileFlag, TransmissionMode
    from spacepackets.cfdp.pdu import EofPdu
    from spacepackets.util import ByteFieldU8
    conf = PduConfig(ByteFieldU8(1), ByteFieldU8(2), ByteFieldU8(3), TransmissionMode.ACKNOWLEDGED, LargeFileFlag.NORMAL, CrcFlag.WITH_CRC)
    return EofPdu, EofPdu(conf, bytes([1, 2, 3, 4]), 5)
try:
  if op == "tc.pack": out = bytes(tc().pack()).hex()
  elif op == "tc.calc_crc+pack_without_recalc":
      o = tc(); o.calc_crc(); out = bytes(o.pack(recalc_crc=False)).hex()
  elif op == "tc.space_packet_view": out = bytes(tc().to_space_packet().pack()).hex()
  elif op == "tm.pack": out = bytes(tm().pack()).hex()
  elif op == "tm.calc_crc+pack_without_recalc":
      o = tm(); o.calc_crc(); out = bytes(o.pack(recalc_crc=False)).hex()
  elif op == "tm.space_packet_view": out = bytes(tm().to_space_packet().pack()).hex()
  elif op == "check_pus_crc": out = [bool(check_pus_crc(ref_tc)), bool(check_pus_crc(ref_tm))]
  elif op == "tc.unpack": out = bytes(PusTc.unpack(ref_tc).pack()).hex()
  elif op == "tm.unpack": out = bytes(PusTm.unpack(ref_tm, 3).pack()).hex()
  elif op == "cfdp.pack": out = bytes(cfdp_eof()[1].pack()).hex()
  elif op == "cfdp.unpack": out = bytes(cfdp_eof()[0].unpack(ref_eof).pack()).hex()
except Exception as e:
  out = 'EXC:' + type(e).__name__
sys.stdout.write(json.dumps(out))
"""


def enum_first_ops(tier, shard, nshards, rng):
    for i, op in enumerate(FIRST_OPS):
        if i % nshards == shard:
            yield {"op": op}


def check_first_op(c):
    """Whatever checksum-related operation a process performs first gives the reference octets (lazily initialised tables,
    module-level calculators): one child interpreter per operation."""
    from ..core import child_python
    from ..ref import cfdp as RC

    ref_tc = RP.pus_tc(0x2A5, 0x1234, 17, 1, 7, 0b1111, bytes([1, 2, 3]))
    ref_tm = RP.pus_tm(0x155, 0x2001, 3, 25, 5, 9, 0, bytes([9, 8, 7]), bytes([0xAA, 0x55]))
    conf = {"crc": 1, "large": 0, "mode": 0, "dir": 0, "segctrl": 0, "idw": 1, "seqw": 1, "src": 1, "dst": 2, "seq": 3}
    ref_eof = RC.pdu({"kind": "eof", "conf": conf, "cc": 0, "checksum": "01020304", "size": 5, "fault": None})
    got = child_python(_FIRST_OP_CHILD, args=(c["op"], ref_tc.hex(), ref_tm.hex(), ref_eof.hex()))
    want = {"check_pus_crc": [True, True]}.get(c["op"], (ref_tc if c["op"].startswith("tc") else ref_tm if c["op"].startswith("tm") else ref_eof).hex())
    devs = []
    eq(devs, f"first_operation_of_a_process.{c['op']}", got, want)
    return devs


CLAUSES.append(Clause(
    id="C04.fresh_interpreter",
    doc="each checksum-related operation (pack, calc_crc + pack without recalculation, space-packet view, standalone check, decode; TC, TM, CFDP) as the FIRST operation of a fresh "
        "interpreter gives the reference octets / verdict",
    kind="enum", enum=enum_first_ops, check=check_first_op, classify=lambda c: [c["op"].split(".")[0]], required=["tc", "tm", "cfdp", "check_pus_crc"], shards={"quick": 4, "thorough": 4},
    exhaustive_note="the 11 listed first operations, one child interpreter each",
))

PROPERTY = Property(
    id="C04",
    level="fault_enumeration",
    rule=(
        "per generated packet (PUS TC, PUS TM, each of the 8 CFDP PDU kinds with the CRC flag, plus packets modified through setters): ALL single-bit flips at admissible bit offsets and, "
        "for every admissible start bit and every burst length 2..16, a drawn pattern with first and last bit set (all patterns for bursts <= 8 bits on packets <= 24 octets); admissible = the burst "
        "touches no length-determining octet (PUS octets 4-5; CFDP octets 1-3) and not the CFDP CRC-flag bit; evaluations = corrupted buffers decoded; every (packet, fault) pair is non-trivial and distinct"
    ),
    clauses=CLAUSES,
    assumptions=[
        "CRC-16/CCITT-FALSE detects every burst of <= 16 bits with certainty, so within the admissible set there is no probabilistic false alarm",
        "the CFDP CRC-flag bit (octet 0, mask 0x02) is excluded: it tells the receiver whether a trailer exists and nothing protects it; no decoder can detect its loss",
        "a rejection is any documented decode error (checksum error, too-short, version, invalid field), never a returned packet object; the factory returning None counts as 'no packet object'",
    ],
    extra_coverage={"excluded_faults": "PUS: bits of octets 4-5; CFDP: bits of octets 1-3 and bit mask 0x02 of octet 0 (CRC flag)"},
)
