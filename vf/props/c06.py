"""C06 - every CFDP file-directive PDU exact per 727.0-B-5 and round-trips."""
from __future__ import annotations

from hypothesis import strategies as st

from .. import cfdp_model as M
from ..core import Clause, Dev, eq, expect_raise, true
from ..prop import Property
from ..ref import cfdp as R

DIRECTIVES = ("eof", "finished", "ack", "metadata", "nak", "prompt", "keepalive")


def check_pdu(p):
    devs = []
    kind = p["kind"]
    want = M.ref_pdu(p)
    wo = M.want_pdu_obs(p, want)
    x = M.build_pdu(p)
    eq(devs, "enc.fields", M.obs_pdu(x, kind), wo)
    packed = x.pack()
    eq(devs, "enc.bytes", bytes(packed), want)
    eq(devs, "enc.len_vs_packet_len", len(packed), x.packet_len)
    hl = R.header_len(p["conf"])
    eq(devs, "enc.data_field_len", int.from_bytes(packed[1:3], "big"), len(packed) - hl)
    eq(devs, "enc.repeat", bytes(x.pack()), want)
    cls = M.pdu_class(kind)
    for tag, buf in (("bytes", bytes(want)), ("bytearray", bytearray(want))):
        y = cls.unpack(buf)
        true(devs, f"dec.type.{tag}", type(y) is cls, f"got {type(y).__name__}")
        eq(devs, f"dec.fields.{tag}", M.obs_pdu(y, kind), wo)
        true(devs, f"dec.eq.{tag}", bool(y == x) and bool(x == y), "unpack(pack(x)) != x")
        eq(devs, f"dec.repack.{tag}", bytes(y.pack()), want)
        eq(devs, f"dec.packet_len.{tag}", y.packet_len, len(want))
    devs.extend(M.pdu_histories(p, want, wo, cls.unpack))
    # documented defaults and convenience constructors agree with the explicit form
    from spacepackets.cfdp import pdu as P0

    if kind == "eof" and p["cc"] == 0 and p["fault"] is None:
        eq(devs, "defaults.eof", bytes(P0.EofPdu(M.build_conf(p["conf"]), bytes.fromhex(p["checksum"]), p["size"]).pack()), want)
    if kind == "nak" and not p["segs"]:
        eq(devs, "defaults.nak_no_requests", bytes(P0.NakPdu(M.build_conf(p["conf"]), p["start"], p["end"]).pack()), want)
        a_, b_ = P0.NakPdu(M.build_conf(p["conf"]), p["start"], p["end"]), P0.NakPdu(M.build_conf(p["conf"]), p["start"], p["end"])
        a_.segment_requests = [(0, 1)]
        eq(devs, "defaults.nak_second_object_unaffected", bytes(b_.pack()), want)
    if kind == "metadata" and p["options"] is None:
        params0 = P0.MetadataParams(bool(p["closure"]), P0.ChecksumType(p["cktype"]) if hasattr(P0, "ChecksumType") else __import__("spacepackets.cfdp.defs", fromlist=["x"]).ChecksumType(p["cktype"]), p["size"], p["src_name"], p["dst_name"])
        eq(devs, "defaults.metadata_no_options", bytes(P0.MetadataPdu(M.build_conf(p["conf"]), params0).pack()), want)
    if kind == "finished":
        sp_ = P0.FinishedPdu.success_pdu(M.build_conf(p["conf"]))
        q_ = {"kind": "finished", "conf": p["conf"], "cc": 0, "delivery": 0, "status": 2, "responses": [], "fault": None}
        eq(devs, "defaults.finished_success_pdu", bytes(sp_.pack()), M.ref_pdu(q_))
        sp2 = P0.FinishedPdu.success_pdu(M.build_conf(p["conf"]))
        sp_.file_store_responses = [M.build_tlv(r) for r in p["responses"]] or [M.build_tlv({"t": "fsresp", "action": 0, "status": 0, "n1": "x", "n2": "", "msg": ""})]
        eq(devs, "defaults.finished_success_pdu_second_object_unaffected", bytes(sp2.pack()), M.ref_pdu(q_))
    if kind == "finished" and any(r["status"] in (0, 15) for r in p["responses"]):
        # the action-independent status members (SUCCESS = 0, NOT_PERFORMED = 15) give the same octets as the action-specific aliases
        from spacepackets.cfdp import tlv as T0
        from spacepackets.cfdp.lv import CfdpLv as Lv0

        xg = M.build_pdu(p)
        xg.file_store_responses = [
            T0.FileStoreResponseTlv(T0.FilestoreActionCode(r["action"]), T0.FilestoreResponseStatusCode(r["status"]), r["n1"], r["n2"], Lv0(bytes.fromhex(r["msg"])))
            if r["status"] in (0, 15) else M.build_tlv(r) for r in p["responses"]
        ]
        eq(devs, "generic_status_members.pack", bytes(xg.pack()), want)
        eq(devs, "generic_status_members.packet_len", xg.packet_len, len(want))
    if kind == "ack":
        # an ACK rebuilt from what a decoder exposes (plain integers equal to the enum values) is the same ACK
        from spacepackets.cfdp import pdu as P

        y = cls.unpack(want)
        x2 = P.AckPdu(M.build_conf(p["conf"]), y.directive_code_of_acked_pdu, y.condition_code_of_acked_pdu, y.transaction_status)
        eq(devs, "rebuilt_from_decoded_fields.bytes", bytes(x2.pack()), want)
        eq(devs, "rebuilt_from_decoded_fields.fields", M.obs_pdu(x2, "ack"), wo)
    if kind in ("eof", "finished"):
        # acknowledging a decoded EOF / Finished PDU through the directive code that PDU reports
        from spacepackets.cfdp import pdu as P

        y = cls.unpack(want)
        q = {"kind": "ack", "conf": p["conf"], "acked": R.EOF if kind == "eof" else R.FINISHED, "cc": p["cc"], "status": 2}
        a = P.AckPdu(M.build_conf(p["conf"]), y.directive_type, y.condition_code, P.TransactionStatus(2))
        eq(devs, "ack_of_decoded_pdu.bytes", bytes(a.pack()), M.ref_pdu(q))
    return devs


def required_for(kind):
    req = [kind, "crc on", "crc off", "large file", "normal file", "id width 8", "seq width 4"]
    if kind in ("eof", "finished", "metadata"):
        req += ["tlv present", "crc+tlv"]
    if kind == "nak":
        req += ["segment requests"]
    if kind in ("finished", "metadata", "nak"):
        req += ["repeated list element", ">= 4 list elements", "data field > 255 octets"]
    return req


# ---- over-width values must fail, not truncate -------------------------------------------------


def st_overwidth():
    def for_kind(kind):
        def for_conf(c):
            bits = 64 if c["large"] else 32
            over = st.one_of(st.sampled_from([1 << bits, (1 << bits) + 1, (1 << bits) + 255, 1 << (bits + 8)]), st.integers(1 << bits, 1 << (bits + 16)))
            base = M._st_pdu_for(kind, c, small=True)
            if kind == "eof":
                return st.tuples(base, over).map(lambda t: {**t[0], "size": t[1], "_field": "size"})
            if kind == "metadata":
                return st.tuples(base, over).map(lambda t: {**t[0], "size": t[1], "_field": "size"})
            if kind == "keepalive":
                return st.tuples(base, over).map(lambda t: {**t[0], "progress": t[1], "_field": "progress"})
            # nak: one of start / end / a segment bound
            def nak(t):
                p, v, which = t
                p = dict(p)
                if which == 0:
                    p["start"] = v
                elif which == 1:
                    p["end"] = v
                else:
                    segs = [list(s) for s in p["segs"]] or [[0, 0]]
                    segs[-1][which - 2] = v
                    p["segs"] = segs
                p["_field"] = ["start", "end", "seg_start", "seg_end"][which]
                return p

            return st.tuples(base, over, st.integers(0, 3)).map(nak)

        return M.st_conf().flatmap(for_conf)

    return st.sampled_from(["eof", "metadata", "keepalive", "nak"]).flatmap(for_kind)


def check_overwidth(p):
    devs = []
    q = {k: v for k, v in p.items() if k != "_field"}

    def mk():
        return bytes(M.build_pdu(q).pack())

    expect_raise(devs, f"overwidth.{p['kind']}.{p['_field']}", mk, accept=(Exception,))
    # the refused pack leaves the object usable: once the value fits again (plain attribute assignment) it packs to the reference octets
    kind, fld = p["kind"], p["_field"]
    if (kind, fld) in (("eof", "size"), ("keepalive", "progress"), ("nak", "start"), ("nak", "end")):
        x = M.build_pdu(q) if kind != "nak" else None
        if kind == "nak":
            try:
                x = M.build_pdu(q)
            except Exception:  # noqa: BLE001 - NAK may refuse out-of-range scopes at construction already
                return devs
        try:
            x.pack()
        except Exception:  # noqa: BLE001 - the refusal checked above
            pass
        good = dict(q)
        fits = 0xFFFFFFFF if not q["conf"]["large"] else 0x0102030405060708
        if kind == "eof":
            x.file_size = fits
            good["size"] = fits
        elif kind == "keepalive":
            x.progress = fits
            good["progress"] = fits
        elif fld == "start":
            x.start_of_scope = fits
            good["start"] = fits
        else:
            x.end_of_scope = fits
            good["end"] = fits
        eq(devs, f"overwidth.{kind}.{fld}.pack_after_refusal_and_fix", bytes(x.pack()), M.ref_pdu(good))
    return devs


# ---- size limits that are reached only through the sum of several parts ------------------------------


def expand_limit_case(c):
    """Compact description -> plain-data PDU (thousands of list elements / names of exact lengths are not written out in the case)."""
    conf = c["conf"]
    k = c["k"]
    if k == "nak_max":
        fss = 8 if conf["large"] else 4
        n = (65535 - 1 - 2 * fss - (2 if conf["crc"] else 0)) // (2 * fss) + c["delta"]
        top = (1 << (8 * fss)) - 1
        return {"kind": "nak", "conf": conf, "start": 0, "end": top, "segs": [[i * 3, top - i] for i in range(n)]}
    if k == "finished_fsresp_len":
        # one filestore response whose TLV value is exactly c["vlen"] octets: status octet + name LV(s) + message LV
        action = 2 if c["second"] else 0
        m = c["msg"]
        rest = c["vlen"] - 1 - (1 + m) - (2 if c["second"] else 1)
        a = rest // 2 if c["second"] else rest
        b = rest - a
        r = {"t": "fsresp", "action": action, "status": 0, "n1": "a" * a, "n2": ("b" * b) if c["second"] else "", "msg": "5a" * m}
        before = [{"t": "fsresp", "action": 0, "status": 1, "n1": "x", "n2": "", "msg": ""}] if c["lead"] else []
        return {"kind": "finished", "conf": conf, "cc": 0, "delivery": 1, "status": 2, "responses": before + [r] + before, "fault": None}
    if k == "many_elements":
        # thousands of minimal list elements: each filestore response is 5 octets, each empty flow label 2, each segment request 8 / 16
        n = c["n"]
        if c["what"] == "finished":
            return {"kind": "finished", "conf": conf, "cc": 4, "delivery": 0, "status": 1, "responses": [{"t": "fsresp", "action": i % 2, "status": 0, "n1": "", "n2": "", "msg": ""} for i in range(n)],
                    "fault": "0a0b" if c.get("fault") else None}
        if c["what"] == "metadata":
            return {"kind": "metadata", "conf": conf, "closure": False, "cktype": 0, "size": 0, "src_name": "a", "dst_name": "b", "options": [{"t": "flow", "v": ""} for _ in range(n)]}
        return {"kind": "nak", "conf": conf, "start": 0, "end": 1, "segs": [[i, i + 1] for i in range(n)]}
    if k == "metadata_long":
        opts = [{"t": "flow", "v": "11" * c["opt"]}, {"t": "msg", "v": "22" * 255}] if c["opt"] is not None else None
        return {"kind": "metadata", "conf": conf, "closure": True, "cktype": 1, "size": 1, "src_name": "s" * c["src"], "dst_name": "d" * c["dst"], "options": opts}
    raise ValueError(k)


def enum_limits(tier, shard, nshards, rng):
    confs = []
    for crc in (0, 1):
        for large in (0, 1):
            for idw, seqw in ((1, 1), (8, 8), (2, 4)) if tier == "thorough" else ((1, 1), (8, 4)):
                confs.append({"crc": crc, "large": large, "mode": 0, "dir": 0, "segctrl": 0, "idw": idw, "seqw": seqw, "src": 1, "dst": (1 << (8 * idw)) - 1, "seq": 7})
    cases = []
    for conf in confs:
        for delta in (0, -1):
            cases.append({"k": "nak_max", "conf": conf, "delta": delta})
        for vlen in (252, 253, 254, 255):
            for second in (False, True):
                cases.append({"k": "finished_fsresp_len", "conf": conf, "vlen": vlen, "second": second, "msg": 0 if vlen % 2 else 9, "lead": vlen >= 254 and second})
        cases.append({"k": "metadata_long", "conf": conf, "src": 255, "dst": 255, "opt": 255})
        cases.append({"k": "metadata_long", "conf": conf, "src": 254, "dst": 255, "opt": None})
        cases.append({"k": "metadata_long", "conf": conf, "src": 127, "dst": 128, "opt": 0})
    for conf in confs[:2] + confs[-1:]:
        cases.append({"k": "many_elements", "conf": conf, "what": "finished", "n": 3000, "fault": True})
        cases.append({"k": "many_elements", "conf": conf, "what": "finished", "n": 1200, "fault": False})
        cases.append({"k": "many_elements", "conf": conf, "what": "metadata", "n": 5000})
        cases.append({"k": "many_elements", "conf": conf, "what": "nak", "n": 2500})
    for i, c in enumerate(cases):
        if i % nshards == shard:
            yield c


def check_limits(c):
    return check_pdu(expand_limit_case(c))


# ---- ACK of anything but EOF / Finished --------------------------------------------------------


def st_bad_ack():
    return st.fixed_dictionaries({"conf": M.st_conf(), "acked": st.sampled_from([0x06, 0x07, 0x08, 0x09, 0x0C, 0x0A]), "cc": st.sampled_from(M.CONDITION_CODES), "status": st.integers(0, 3)})


def check_bad_ack(c):
    from spacepackets.cfdp import defs as cd
    from spacepackets.cfdp import pdu as P

    devs = []
    expect_raise(devs, "ack.invalid_target", P.AckPdu, M.build_conf(c["conf"]), P.DirectiveType(c["acked"]), cd.ConditionCode(c["cc"]), P.TransactionStatus(c["status"]))
    return devs


def st_bad_checksum():
    return st.fixed_dictionaries({"conf": M.st_conf(), "checksum": st.binary(max_size=8).filter(lambda b: len(b) != 4).map(bytes.hex)})


def check_bad_checksum(c):
    from spacepackets.cfdp import pdu as P

    devs = []
    expect_raise(devs, "eof.checksum_len", P.EofPdu, M.build_conf(c["conf"]), bytes.fromhex(c["checksum"]), 0)
    return devs


CLAUSES = [
    Clause(
        id=f"C06.{kind}",
        doc=f"{kind}: pack == reference octets, data-field length, unpack same kind / observation-equal / == / re-pack",
        strategy=(lambda kind=kind: M.st_pdu(kind)),
        check=check_pdu,
        nontrivial=M.pdu_nontrivial,
        classify=lambda p: M.pdu_classes(p) + (["data field > 255 octets"] if len(M.ref_pdu(p)) - R.header_len(p["conf"]) > 255 else []),
        required=required_for(kind),
        n={"quick": 400, "thorough": 4000},
    )
    for kind in DIRECTIVES
] + [
    Clause(
        id="C06.limits",
        doc="sizes reached only through the sum of parts: NAK with the maximum (and maximum-1) number of segment requests a 16-bit data field holds, Finished with a filestore "
            "response whose TLV value is exactly 252..255 octets (one / two names, with / without neighbours), Metadata with 255-octet names and options; same oracle as the directive clauses",
        kind="enum",
        enum=enum_limits,
        check=check_limits,
        classify=lambda c: [c["k"]] + (["crc on"] if c["conf"]["crc"] else ["crc off"]) + (["large file"] if c["conf"]["large"] else []),
        required=["nak_max", "finished_fsresp_len", "metadata_long", "many_elements", "crc on", "large file"],
        shards={"quick": 8, "thorough": 16},
        exhaustive_note="all listed limit cases x {CRC on/off} x {32/64-bit sizes} x 2 (quick) / 3 (thorough) id/sequence width pairs",
    ),
    Clause(
        id="C06.overwidth",
        doc="file-size-sensitive values that do not fit the selected width make packing fail rather than truncate",
        strategy=st_overwidth,
        check=check_overwidth,
        classify=lambda p: [f"{p['kind']}.{p['_field']}", "large file" if p["conf"]["large"] else "normal file"],
        required=["eof.size", "metadata.size", "keepalive.progress", "nak.start", "nak.end", "nak.seg_start", "nak.seg_end", "large file", "normal file"],
        n={"quick": 600, "thorough": 5000},
    ),
    Clause(
        id="C06.ack_target",
        doc="ACK of a directive other than EOF / Finished is refused with ValueError",
        strategy=st_bad_ack,
        check=check_bad_ack,
        n={"quick": 100, "thorough": 500},
        shards={"quick": 1, "thorough": 2},
    ),
    Clause(
        id="C06.eof_checksum_len",
        doc="EOF checksum that is not 4 octets is refused with ValueError (documented)",
        strategy=st_bad_checksum,
        check=check_bad_checksum,
        n={"quick": 100, "thorough": 500},
        shards={"quick": 1, "thorough": 2},
    ),
]

from ..names_check import names_clause  # noqa: E402

if names_clause("C06") is not None:
    CLAUSES.append(names_clause("C06"))

PROPERTY = Property(
    id="C06",
    level="exploration",
    rule=(
        "per directive: header configuration over crc x large x mode x direction x 16 width pairs with boundary-weighted ids; every condition code / "
        "status / checksum type; sizes and offsets boundary-weighted over the full 32/64-bit range; TLV lists from the concrete-TLV generators; oracle = "
        "reference directive encoders (vf/ref/cfdp.py, direction taken from the standard); non-trivial = CRC on or large file or width != 1 or non-zero "
        "enum / size > 255 / TLV present"
    ),
    clauses=CLAUSES,
    assumptions=[
        "vf/ref/cfdp.py is the trusted statement of 727.0-B-5 section 5.2 (pinned by octet vectors asserted in tests/cfdp/pdus)",
        "fault location is generated only with condition codes that admit one (standard omits it otherwise; the library's own decoder refuses it)",
        "Metadata: empty options are given as None; empty file names read back as None through the accessors",
        "segmentation control is 0 for file directives (the standard fixes it; the statement lists CRC, file size width and id widths as the configuration)",
    ],
)
