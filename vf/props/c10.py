"""C10 - decoding arbitrary or truncated input fails only in documented ways."""
from __future__ import annotations

import random

from hypothesis import strategies as st

from .. import decoders as D
from ..core import Clause, Dev, exc_sub
from ..prop import Property


def _bad(devs, e: D.Entry, tag: str, kind: str, exc, what: str):
    """Record an undocumented outcome; the signature names the exception class and the innermost library frame."""
    if kind == "hang":
        devs.append(Dev(f"{e.name}:{tag}:non_termination", f"no result after {D.WATCHDOG_S}s: {what}"))
    else:
        sub = exc_sub(exc, prefix="exc") or f"exc:{type(exc).__name__}"
        devs.append(Dev(f"{e.name}:{sub}", f"[{tag}] {type(exc).__name__}: {str(exc)[:120]} on {what}"))


def _probe(devs, e: D.Entry, buf: bytes, cfg: dict, tag: str, must_refuse: bool, seen: set):
    kind, r = D.outcome(e, buf, cfg)
    if kind in ("bad", "hang"):
        key = (kind, type(r).__name__, exc_sub(r) if r is not None else "")
        if key not in seen:
            seen.add(key)
            _bad(devs, e, tag, kind, r, f"buf={buf.hex()[:160]} cfg={cfg}")
    elif kind == "ok" and must_refuse:
        key = ("accepted", tag)
        if key not in seen:
            seen.add(key)
            devs.append(Dev(f"{e.name}:{tag}:accepted", f"strict prefix of {len(buf)} octets decoded instead of refused: buf={buf.hex()[:160]} cfg={cfg}"))
    return kind


# ---- (a) arbitrary octets and structured noise --------------------------------------------------------------


def st_raw(fam):
    entries = D.by_family(fam)

    def for_entry(e: D.Entry):
        noise = st.binary(max_size=64)
        valid = e.valid()
        # valid first octets + random tail; valid unit with a random window overwritten; valid cfg kept
        spliced = st.tuples(valid, st.integers(0, 40), st.binary(max_size=24)).map(lambda t: {"cfg": t[0]["cfg"], "buf": (bytes.fromhex(t[0]["raw"])[: t[1]] + t[2]).hex()})
        overw = st.tuples(valid, st.integers(0, 40), st.binary(min_size=1, max_size=4)).map(
            lambda t: {"cfg": t[0]["cfg"], "buf": (lambda r, i, w: r[:i] + w + r[i + len(w):])(bytes.fromhex(t[0]["raw"]), t[1], t[2]).hex()}
        )
        plain = st.tuples(e.cfg(), noise).map(lambda t: {"cfg": t[0], "buf": t[1].hex()})
        # a valid unit decoded under managed parameters that do not belong to it: all of them drawn independently, or exactly one
        # of them replaced (timestamp length, field widths, frame type, class of the properties object, configured sizes ...)
        othercfg = st.tuples(valid, e.cfg()).map(lambda t: {"cfg": t[1], "buf": t[0]["raw"]})

        def one_key(t):
            v, other, pick = t
            keys = sorted(k for k in other if other[k] != v["cfg"].get(k))
            cfg = dict(v["cfg"])
            if keys:
                k = keys[pick % len(keys)]
                cfg[k] = other[k]
            return {"cfg": cfg, "buf": v["raw"]}

        onekey = st.tuples(valid, e.cfg(), st.integers(0, 7)).map(one_key)
        return st.tuples(st.one_of(plain, plain, spliced, overw, othercfg, onekey), st.booleans()).map(lambda t: {"entry": e.name, "cfg": t[0]["cfg"], "buf": t[0]["buf"], "patch": bool(t[1] and e.crc is not None)})

    return st.sampled_from(entries).flatmap(for_entry)


def check_raw(c):
    e = D.ENTRIES[c["entry"]]
    buf = bytes.fromhex(c["buf"])
    devs = []
    n = 0
    bufs = [buf]
    if e.crc is not None:
        patched = e.crc(buf, c["cfg"])
        if patched != buf:
            bufs.append(patched)
    if c.get("patch") and len(bufs) == 2:
        bufs = bufs[1:]  # replay files of the fuzz target name the exact variant
    seen = set()
    for b in bufs:
        _probe(devs, e, b, c["cfg"], "raw", False, seen)
        _probe(devs, e, bytearray(b), c["cfg"], "raw.bytearray", False, seen)
        n += 2
    return devs, n


def _nt_raw(c):
    return len(c["buf"]) // 2 >= 4


def _cls_raw(c):
    return [c["entry"]]


# ---- (b) every truncation point of valid packets -----------------------------------------------------------------


def st_valid(fam):
    entries = D.by_family(fam)
    return st.sampled_from(entries).flatmap(lambda e: e.valid().map(lambda v: {"entry": e.name, "cfg": v["cfg"], "raw": v["raw"]}))


def check_trunc(c):
    e = D.ENTRIES[c["entry"]]
    raw = bytes.fromhex(c["raw"])
    devs = []
    seen = set()
    # the complete unit itself must decode (otherwise the generator is not producing valid units: harness problem)
    kind, r = D.outcome(e, raw, c["cfg"])
    if kind != "ok":
        devs.append(Dev(f"{e.name}:valid_unit_not_accepted", f"{kind} {type(r).__name__ if r is not None else ''}: {r} raw={raw.hex()[:160]} cfg={c['cfg']}"))
        return devs, 1
    n = 1
    for cut in range(len(raw)):
        _probe(devs, e, raw[:cut], c["cfg"], "prefix", e.delimited, seen)
        n += 1
    return devs, n


def _cls_valid(c):
    return [c["entry"]]


# ---- (c) substitutions in header / length / type fields, with the checksum re-patched -------------------------------


def mutations(e: D.Entry, raw: bytes, cfg: dict, rng: random.Random):
    head = max(0, min(len(raw), e.head(raw, cfg)))
    for i in range(head):
        v = raw[i]
        for nv in {0x00, 0xFF, v ^ 0x01, v ^ 0x80, (v + 1) & 0xFF, rng.randrange(256)} - {v}:
            yield f"sub[{i}]={nv:02x}", raw[:i] + bytes([nv]) + raw[i + 1:]
    for off, w in e.len_fields(raw, cfg):
        if off + w > len(raw):
            continue
        true = int.from_bytes(raw[off:off + w], "big")
        mx = (1 << (8 * w)) - 1
        for nv in {0, 1, true - 1, true + 1, true - 2, true + 2, mx, mx - 1} - {true}:
            if 0 <= nv <= mx:
                buf = raw[:off] + nv.to_bytes(w, "big") + raw[off + w:]
                yield f"len[{off}]={nv}", buf
                # the same rewrite with the buffer shortened to match: a consistent but too-short unit
                if nv < true and true - nv < len(raw) - off - w:
                    yield f"len[{off}]={nv}+cut", buf[: len(buf) - (true - nv)]
        # every shorter declared length with the buffer cut to match (optional field cut in the middle, fixed part missing)
        if w <= 2:
            for k in range(1, min(true, len(raw) - off - w, 40) + 1):
                nv = true - k
                buf = raw[:off] + nv.to_bytes(w, "big") + raw[off + w:]
                yield f"len[{off}]={nv}+cut", buf[: len(buf) - k]


def st_subst(fam):
    return st.tuples(st_valid(fam), st.integers(0, 2**31), st.booleans()).map(lambda t: {**t[0], "seed": t[1], "patch": t[2]})


def check_subst(c):
    e = D.ENTRIES[c["entry"]]
    raw = bytes.fromhex(c["raw"])
    devs = []
    seen = set()
    n = 0
    for what, buf0 in mutations(e, raw, c["cfg"], random.Random(c["seed"])):
        # every mutation is tried as it is and - for checksummed units - with the CRC re-patched over the declared extent
        # (a generated boolean would leave the patched half badly under-sampled: Hypothesis favours False)
        variants = [("", buf0)]
        if e.crc is not None:
            patched = e.crc(buf0, c["cfg"])
            if patched != buf0:
                variants.append((" +crc", patched))
        for sfx, buf in variants:
            n += 1
            kind, r = D.outcome(e, buf, c["cfg"])
            if kind in ("bad", "hang"):
                key = (kind, type(r).__name__, exc_sub(r) if r is not None else "")
                if key not in seen:
                    seen.add(key)
                    _bad(devs, e, "subst", kind, r, f"{what}{sfx} buf={buf.hex()[:160]} cfg={c['cfg']}")
    return devs, max(n, 1)


def _cls_subst(c):
    e = D.ENTRIES[c["entry"]]
    return [c["entry"]] + (["with and without re-patched crc"] if e.crc is not None else [])


# ---- (d) valid units under every other configuration of the entry's finite configuration list ------------------------


def check_othercfg(c):
    """A valid unit is decoded under managed parameters that do not belong to it: each configuration of the entry's finite list
    (vf/fuzz/target.py: cfg_list) as a whole, and each single parameter of it overlaid on the unit's own configuration.
    Outcome: a result or a documented error."""
    from ..fuzz.target import cfg_list, resolve_cfg

    e = D.ENTRIES[c["entry"]]
    raw = bytes.fromhex(c["raw"])
    devs = []
    seen = set()
    tried = set()
    n = 0
    for other in cfg_list(e):
        other = resolve_cfg(other, raw)
        cands = [other] + [dict(c["cfg"], **{k: v}) for k, v in other.items() if c["cfg"].get(k) != v]
        for cfg in cands:
            key = repr(sorted(cfg.items(), key=lambda kv: kv[0]))
            if key in tried:
                continue
            tried.add(key)
            n += 1
            _probe(devs, e, raw, cfg, "othercfg", False, seen)
    return devs, max(n, 1)


def _has_cfgs(e):
    from ..fuzz.target import cfg_list

    return cfg_list(e) != [{}]


def _names(fam):
    return [e.name for e in D.by_family(fam)]


CLAUSES = []
for _fam in D.FAMILIES:
    CLAUSES.append(Clause(
        id=f"C10.raw.{_fam}",
        doc=f"{_fam}: arbitrary octets, valid-prefix + noise, valid unit with an overwritten window (each also with the CRC re-patched): return or documented error, never another exception, never a hang",
        strategy=(lambda _fam=_fam: st_raw(_fam)), check=check_raw, nontrivial=_nt_raw, classify=_cls_raw, required=_names(_fam),
        rule="non-trivial = buffer of at least 4 octets (gets past the first guard of most decoders)",
        n={"quick": 120 * len(D.by_family(_fam)), "thorough": 1500 * len(D.by_family(_fam))},
    ))
    CLAUSES.append(Clause(
        id=f"C10.prefix.{_fam}",
        doc=f"{_fam}: every strict prefix of a valid unit (all cut points): self-delimiting units must be refused with a documented error; inspectors may also return",
        strategy=(lambda _fam=_fam: st_valid(_fam)), check=check_trunc, classify=_cls_valid, required=_names(_fam), weight_by_evals=True,
        rule="every (valid unit, cut point) pair is non-trivial",
        n={"quick": 40 * len(D.by_family(_fam)), "thorough": 400 * len(D.by_family(_fam))},
    ))
    if any(_has_cfgs(_e) for _e in D.by_family(_fam)):
        CLAUSES.append(Clause(
            id=f"C10.othercfg.{_fam}",
            doc=f"{_fam}: valid units decoded under every configuration of the entry's finite list and under each single foreign parameter (timestamp length, widths, frame type, "
                "class and sizes of the managed-parameter object): a result or a documented error",
            strategy=(lambda _fam=_fam: st.sampled_from([_e for _e in D.by_family(_fam) if _has_cfgs(_e)]).flatmap(lambda e: e.valid().map(lambda v: {"entry": e.name, "cfg": v["cfg"], "raw": v["raw"]}))),
            check=check_othercfg, classify=_cls_valid, required=[_e.name for _e in D.by_family(_fam) if _has_cfgs(_e)], weight_by_evals=True,
            rule="every (valid unit, foreign configuration) pair is non-trivial",
            n={"quick": 25 * len([_e for _e in D.by_family(_fam) if _has_cfgs(_e)]), "thorough": 300 * len([_e for _e in D.by_family(_fam) if _has_cfgs(_e)])},
        ))
    CLAUSES.append(Clause(
        id=f"C10.subst.{_fam}",
        doc=f"{_fam}: single-octet substitutions at every index of the header/length/type region and length-field rewrites (also with the buffer cut to match) of a valid unit, each tried as is and with the CRC re-patched",
        strategy=(lambda _fam=_fam: st_subst(_fam)), check=check_subst, classify=_cls_subst, required=_names(_fam), weight_by_evals=True,
        rule="every (valid unit, substitution) pair is non-trivial",
        n={"quick": 100 * len(D.by_family(_fam)), "thorough": 800 * len(D.by_family(_fam))},
    ))

CLAUSES.append(Clause(
    id="C10.fuzz",
    kind="fuzz",
    doc="coverage-guided campaign (atheris/libFuzzer) over all entry points with the same oracle inside the target: octet 0 = entry, octet 1 = flags (CRC re-patch, decoder configuration), rest = buffer; "
        "even shards start from an empty corpus, odd shards from valid units; reported buckets are re-run through the plain oracle",
    check=check_raw, nontrivial=_nt_raw, classify=lambda c: [c["entry"]], tiers=("thorough",),
    fuzz={"prop": "C10", "runs": {"thorough": 400000}, "seeded": 3},
    rule="distinct = distinct fuzzer inputs (64-bit digests) that are non-trivial by the rule of the corresponding @given clause; executions are exact to within 1000 (atheris exits through os._exit)",
    shards={"quick": 0, "thorough": 16},
))

def enum_many(tier, shard, nshards, rng):
    from . import c06

    i = 0
    for c in c06.enum_limits(tier, 0, 1, rng):
        if c["k"] in ("many_elements", "nak_max"):
            i += 1
            if i % nshards == shard:
                yield c


def check_many(c):
    """Valid PDUs with thousands of list elements: the decoders return (no recursion limit, no quadratic blow-up caught by the watchdog),
    and every strict prefix cut at a few places is refused with a documented error."""
    from . import c06

    p = c06.expand_limit_case(c)
    raw = M.ref_pdu(p)
    devs = []
    seen = set()
    n = 0
    for name in (D.PDU_CLASS_NAMES[p["kind"]] + ".unpack", "PduFactory.from_raw", "PduFactory.from_raw_to_holder"):
        e = D.ENTRIES[name]
        kind, r = D.outcome(e, raw, {})
        n += 1
        if kind != "ok":
            _bad(devs, e, "many_elements", kind if kind in ("bad", "hang") else "bad", r if r is not None else ValueError("refused a valid PDU"), f"{p['kind']} PDU with {c.get('n', 'max')} list elements ({len(raw)} octets)") if kind != "refused" \
                else devs.append(Dev(f"{e.name}:many_elements:valid_unit_refused", f"{type(r).__name__}: {r}"))
            continue
        for cut in (len(raw) - 1, len(raw) - 3, len(raw) // 2, len(raw) // 2 + 1):
            _probe(devs, e, raw[:cut], {}, "prefix", True, seen)
            n += 1
    return devs, n


from .. import cfdp_model as M  # noqa: E402

CLAUSES.append(Clause(
    id="C10.many_elements",
    doc="valid Finished / Metadata / NAK PDUs with thousands of minimal list elements (and the maximum NAK): class decoder, factory and holder return; prefixes are refused with documented errors",
    kind="enum", enum=enum_many, check=check_many, classify=lambda c: [c.get("what", "nak"), c["k"]], required=["finished", "metadata", "nak"], weight_by_evals=True,
    rule="every listed case is non-trivial", shards={"quick": 8, "thorough": 8},
))

from ..envcheck import env_clauses  # noqa: E402

CLAUSES.extend(env_clauses("C10", D.FAMILIES))

PROPERTY = Property(
    id="C10",
    level="exploration",
    rule=(
        f"{len(D.ENTRIES)} public decoder entry points in 7 families; per family three generators: (a) arbitrary octets up to 64, valid-prefix+noise and overwritten windows of valid units, "
        "(b) every truncation point of generated valid units (from the reference encoders), (c) octet substitutions {00, ff, v^01, v^80, v+1, drawn} at every index of the header region and "
        "length-field rewrites {0,1,true+-1,true+-2,max}, each also with the CRC re-patched over the declared extent so checksum gates do not shield the parser; oracle: outcome is a "
        "return or a documented error class (ValueError family, CRC errors, version, TLV type mismatch, USLP errors), every call under a 10 s watchdog; strict prefixes of self-delimiting units must be refused"
    ),
    clauses=CLAUSES,
    assumptions=[
        "documented errors = ValueError and subclasses, InvalidTcCrc16, InvalidTmCrc16, cfdp InvalidCrc, TlvTypeMissmatch, UnsupportedCfdpVersion, the Uslp* exception classes (DESIGN 3.5)",
        "decoder configurations (timestamp length, field widths, USLP managed parameters) are drawn from their documented ranges only",
        "the watchdog is the one place where a timer is an oracle: 10 s is > 10^4 x the normal decode time of inputs <= 64 KiB",
    ],
)
