"""C01 - Space Packet primary header exact and bijective."""
from __future__ import annotations

from hypothesis import strategies as st

from ..core import Clause, Dev, eq, expect_raise, true
from ..prop import Property
from ..ref import ccsds as R
from ..strategies import uint


def _sp():
    from spacepackets.ccsds import spacepacket as sp

    return sp


def obs_header(h) -> dict:
    return {
        "ver": int(h.ccsds_version),
        "ptype": int(h.packet_type),
        "shf": int(bool(h.sec_header_flag)),
        "apid": int(h.apid),
        "flags": int(h.seq_flags),
        "count": int(h.seq_count),
        "dlen": int(h.data_len),
    }


def _fields(p):
    return {k: p[k] for k in ("ver", "ptype", "shf", "apid", "flags", "count", "dlen")}


def check_header(case):
    """case: {"hdr": 12 hex digits, "tail": hex} - both directions from the same 48 bits."""
    sp = _sp()
    devs = []
    raw = bytes.fromhex(case["hdr"])
    tail = bytes.fromhex(case.get("tail", ""))
    p = R.parse_sp_header(raw)
    f = _fields(p)
    # ---- decode direction
    for tag, buf in (("exact", raw), ("tail", raw + tail), ("bytearray", bytearray(raw + tail))):
        h = sp.SpacePacketHeader.unpack(buf)
        eq(devs, f"dec.fields.{tag}", obs_header(h), f)
        eq(devs, f"dec.repack.{tag}", bytes(h.pack()), raw)
        eq(devs, f"dec.packet_len.{tag}", h.packet_len, p["dlen"] + 7)
        eq(devs, f"dec.packet_id.{tag}", h.packet_id.raw(), p["packet_id"])
        eq(devs, f"dec.psc.{tag}", h.packet_seq_control.raw(), p["psc"])
        eq(devs, f"dec.header_len.{tag}", h.header_len, 6)
    # ---- encode direction
    h = sp.SpacePacketHeader(
        packet_type=sp.PacketType(f["ptype"]),
        apid=f["apid"],
        seq_count=f["count"],
        data_len=f["dlen"],
        sec_header_flag=bool(f["shf"]),
        seq_flags=sp.SequenceFlags(f["flags"]),
        ccsds_version=f["ver"],
    )
    packed = h.pack()
    eq(devs, "enc.bytes", bytes(packed), R.sp_header(**f))
    eq(devs, "enc.bytes_vs_input", bytes(packed), raw)
    eq(devs, "enc.len", len(packed), 6)
    eq(devs, "enc.fields", obs_header(h), f)
    eq(devs, "enc.packet_len", h.packet_len, f["dlen"] + 7)
    eq(devs, "enc.total_len_helper", sp.get_total_space_packet_len_from_len_field(f["dlen"]), f["dlen"] + 7)
    h2 = sp.SpacePacketHeader.unpack(packed)
    true(devs, "roundtrip.eq", h2 == h and h == h2, "unpack(pack(h)) != h")
    eq(devs, "roundtrip.fields", obs_header(h2), f)
    # composite route
    pid = sp.PacketId(sp.PacketType(f["ptype"]), bool(f["shf"]), f["apid"])
    psc = sp.PacketSeqCtrl(sp.SequenceFlags(f["flags"]), f["count"])
    eq(devs, "pid.raw", pid.raw(), p["packet_id"])
    eq(devs, "psc.raw", psc.raw(), p["psc"])
    eq(devs, "pid.helper_raw", sp.get_sp_packet_id_raw(sp.PacketType(f["ptype"]), bool(f["shf"]), f["apid"]), p["packet_id"])
    eq(devs, "psc.helper_raw", sp.get_sp_psc_raw(sp.SequenceFlags(f["flags"]), f["count"]), p["psc"])
    w0 = int.from_bytes(raw[0:2], "big")
    pid2 = sp.PacketId.from_raw(w0)  # upper three bits are not part of the 13-bit word
    eq(devs, "pid.from_raw.raw", pid2.raw(), p["packet_id"])
    eq(devs, "pid.from_raw.fields", (int(pid2.ptype), int(bool(pid2.sec_header_flag)), int(pid2.apid)), (f["ptype"], f["shf"], f["apid"]))
    true(devs, "pid.from_raw.eq", pid2 == pid, "PacketId.from_raw(raw) != PacketId(fields)")
    pid3 = sp.PacketId.from_raw(p["packet_id"])
    eq(devs, "pid.from_raw13.raw", pid3.raw(), p["packet_id"])
    psc2 = sp.PacketSeqCtrl.from_raw(p["psc"])
    eq(devs, "psc.from_raw.raw", psc2.raw(), p["psc"])
    eq(devs, "psc.from_raw.fields", (int(psc2.seq_flags), int(psc2.seq_count)), (f["flags"], f["count"]))
    true(devs, "psc.from_raw.eq", psc2 == psc, "PacketSeqCtrl.from_raw(raw) != PacketSeqCtrl(fields)")
    hc = sp.SpacePacketHeader.from_composite_fields(pid, psc, f["dlen"], f["ver"])
    eq(devs, "composite.bytes", bytes(hc.pack()), raw)
    true(devs, "composite.eq", hc == h, "from_composite_fields != constructor")
    # ---- histories: conversions and headers are independent of what happened to earlier results
    other_apid, other_count = (f["apid"] + 1) % 2048, (f["count"] + 1) % 16384
    pid2.apid = other_apid  # the owner of an earlier conversion result changes it ...
    pid2.ptype = sp.PacketType(1 - f["ptype"])
    eq(devs, "pid.from_raw.again_after_earlier_result_was_modified", sp.PacketId.from_raw(w0).raw(), p["packet_id"])  # ... converting the same word again still gives that word
    psc2.seq_count = other_count
    eq(devs, "psc.from_raw.again_after_earlier_result_was_modified", sp.PacketSeqCtrl.from_raw(p["psc"]).raw(), p["psc"])
    hc2 = sp.SpacePacketHeader.from_composite_fields(pid, psc, f["dlen"], f["ver"])  # second header from the same caller-owned words
    hc.apid = other_apid
    hc.seq_count = other_count
    hc.sec_header_flag = not bool(f["shf"])
    hc.seq_flags = sp.SequenceFlags((f["flags"] + 1) % 4)
    eq(devs, "composite.sibling_header_after_setters_on_first", bytes(hc2.pack()), raw)
    eq(devs, "composite.caller_packet_id_untouched", pid.raw(), p["packet_id"])
    eq(devs, "composite.caller_psc_untouched", psc.raw(), p["psc"])
    d1 = sp.SpacePacketHeader.unpack(raw + tail)
    d2 = sp.SpacePacketHeader.unpack(raw + tail)
    d1.apid = other_apid
    d1.seq_count = other_count
    eq(devs, "dec.second_result_after_setters_on_first", bytes(d2.pack()), raw)
    eq(devs, "dec.again_after_setters_on_earlier_result", bytes(sp.SpacePacketHeader.unpack(raw + tail).pack()), raw)
    from ..core import pack_fresh

    pack_fresh(devs, "enc.bytes_repeat", h.pack, raw)
    # a header that was packed, then changed through the objects its getters hand out (not through its own setters), packed again
    hw = sp.SpacePacketHeader.unpack(raw)
    hw.pack()
    bool(hw == h)
    hw.packet_id.apid = other_apid
    hw.packet_seq_control.seq_count = other_count
    eq(devs, "hist.changed_through_sub_objects.pack", bytes(hw.pack()), R.sp_header(f["ver"], f["ptype"], f["shf"], other_apid, f["flags"], other_count, f["dlen"]))
    eq(devs, "hist.changed_through_sub_objects.fields", (hw.apid, hw.seq_count), (other_apid, other_count))
    # positional construction in the documented parameter order (packet_type, apid, seq_count, data_len, sec_header_flag, seq_flags, ccsds_version)
    hp = sp.SpacePacketHeader(sp.PacketType(f["ptype"]), f["apid"], f["count"], f["dlen"], bool(f["shf"]), sp.SequenceFlags(f["flags"]), f["ver"])
    eq(devs, "enc.positional.bytes", bytes(hp.pack()), raw)
    eq(devs, "pid.positional.raw", sp.PacketId(sp.PacketType(f["ptype"]), bool(f["shf"]), f["apid"]).raw(), p["packet_id"])
    eq(devs, "psc.positional.raw", sp.PacketSeqCtrl(sp.SequenceFlags(f["flags"]), f["count"]).raw(), p["psc"])
    # documented defaults: no secondary header, unsegmented, version 0
    hdflt = sp.SpacePacketHeader(packet_type=sp.PacketType(f["ptype"]), apid=f["apid"], seq_count=f["count"], data_len=f["dlen"])
    eq(devs, "enc.defaults.bytes", bytes(hdflt.pack()), R.sp_header(0, f["ptype"], 0, f["apid"], 3, f["count"], f["dlen"]))
    # the documented plain-integer forms of the enumerated fields ("0 for Telemetry, 1 for Telecommands", flags 0..3)
    hi = sp.SpacePacketHeader(packet_type=f["ptype"], apid=f["apid"], seq_count=f["count"], data_len=f["dlen"], sec_header_flag=bool(f["shf"]), seq_flags=f["flags"], ccsds_version=f["ver"])
    eq(devs, "enc.int_enums.bytes", bytes(hi.pack()), raw)
    eq(devs, "enc.int_enums.roundtrip", obs_header(sp.SpacePacketHeader.unpack(bytes(hi.pack()))), f)
    eq(devs, "pid.int_ptype.raw", sp.PacketId(f["ptype"], bool(f["shf"]), f["apid"]).raw(), p["packet_id"])
    eq(devs, "pid.int_flag.raw", sp.PacketId(sp.PacketType(f["ptype"]), f["shf"], f["apid"]).raw(), p["packet_id"])  # the flag as the bit read from a header (0 / 1)
    eq(devs, "enc.int_flag.bytes", bytes(sp.SpacePacketHeader(packet_type=sp.PacketType(f["ptype"]), apid=f["apid"], seq_count=f["count"], data_len=f["dlen"], sec_header_flag=f["shf"],
                                                           seq_flags=sp.SequenceFlags(f["flags"]), ccsds_version=f["ver"]).pack()), raw)
    eq(devs, "pid.helper_raw.int_flag", sp.get_sp_packet_id_raw(sp.PacketType(f["ptype"]), f["shf"], f["apid"]), p["packet_id"])
    eq(devs, "psc.int_flags.raw", sp.PacketSeqCtrl(f["flags"], f["count"]).raw(), p["psc"])
    eq(devs, "pid.helper_raw.int_ptype", sp.get_sp_packet_id_raw(f["ptype"], bool(f["shf"]), f["apid"]), p["packet_id"])
    eq(devs, "psc.helper_raw.int_flags", sp.get_sp_psc_raw(f["flags"], f["count"]), p["psc"])
    b1, b2 = sp.get_space_packet_id_bytes(f["ptype"], bool(f["shf"]), f["apid"], f["ver"])
    eq(devs, "id_bytes.int_ptype", bytes([b1, b2]), raw[0:2])
    hs = sp.SpacePacketHeader.unpack(raw)
    hs.packet_type = 1 - f["ptype"]
    hs.packet_type = f["ptype"]
    hs.seq_flags = f["flags"]
    eq(devs, "setter.int_enums.bytes", bytes(hs.pack()), raw)
    b1, b2 = sp.get_space_packet_id_bytes(sp.PacketType(f["ptype"]), bool(f["shf"]), f["apid"], f["ver"])
    eq(devs, "id_bytes", bytes([b1, b2]), raw[0:2])
    eq(devs, "apid_from_raw", sp.get_apid_from_raw_space_packet(raw + tail), f["apid"])
    return devs


def _hdr_case(w0, w1, w2, tail=b""):
    return {"hdr": (w0.to_bytes(2, "big") + w1.to_bytes(2, "big") + w2.to_bytes(2, "big")).hex(), "tail": bytes(tail).hex()}


def enum_words(tier, shard, nshards, rng):
    for word in range(3):
        for v in range(65536):
            if v % nshards != shard:
                continue
            ws = [rng.randrange(65536), rng.randrange(65536), rng.randrange(65536)]
            ws[word] = v
            tail = bytes(rng.randrange(256) for _ in range(v % 5))
            yield _hdr_case(ws[0], ws[1], ws[2], tail)


def _nontrivial_hdr(case):
    p = R.parse_sp_header(bytes.fromhex(case["hdr"]))
    return p["ver"] != 0 or p["apid"] > 0x3FF or p["count"] > 0xFF or p["dlen"] > 0xFF or p["flags"] != 3


def _classify_hdr(case):
    p = R.parse_sp_header(bytes.fromhex(case["hdr"]))
    out = []
    if p["ver"]:
        out.append("version != 0")
    if p["apid"] >= 0x400:
        out.append("apid >= 0x400")
    if p["count"] == 0x3FFF:
        out.append("count == 0x3fff")
    if p["dlen"] == 0xFFFF:
        out.append("dlen == 0xffff")
    if p["flags"] != 3:
        out.append("flags != unsegmented")
    if case.get("tail"):
        out.append("trailing octets")
    return out


def st_random():
    return st.tuples(uint(3), uint(1), uint(1), uint(11), uint(2), uint(14), uint(16), st.binary(max_size=32)).map(
        lambda t: {"hdr": R.sp_header(*t[:7]).hex(), "tail": t[7].hex()}
    )


# ---- SpacePacket.pack ----------------------------------------------------------------------


def st_packet():
    return st.fixed_dictionaries(
        {
            "hdr": st.tuples(uint(3), uint(1), uint(1), uint(11), uint(2), uint(14), uint(16)).map(lambda t: R.sp_header(*t).hex()),
            "sec": st.one_of(st.none(), st.binary(max_size=12).map(bytes.hex)),
            "data": st.one_of(st.none(), st.binary(max_size=40).map(bytes.hex)),
        }
    )


def check_packet(case):
    sp = _sp()
    devs = []
    raw = bytes.fromhex(case["hdr"])
    p = R.parse_sp_header(raw)
    h = sp.SpacePacketHeader.unpack(raw)
    sec = None if case["sec"] is None else bytes.fromhex(case["sec"])
    data = None if case["data"] is None else bytes.fromhex(case["data"])
    pkt = sp.SpacePacket(h, sec, data)
    if p["shf"] and sec is None:
        expect_raise(devs, "packet.missing_sec", pkt.pack)
    elif not p["shf"] and data is None:
        expect_raise(devs, "packet.missing_data", pkt.pack)
    else:
        want = raw + (sec if p["shf"] else b"") + (data or b"")
        eq(devs, "packet.bytes", bytes(pkt.pack()), want)
        eq(devs, "packet.bytes_again", bytes(pkt.pack()), want)
        eq(devs, "packet.apid", pkt.apid, p["apid"])
        eq(devs, "packet.seq_count", pkt.seq_count, p["count"])
    return devs


# ---- refusals ------------------------------------------------------------------------------


def st_refuse():
    def oob(bits):
        mx = (1 << bits) - 1
        return st.one_of(
            st.sampled_from([-1, mx + 1, mx + 2, 1 << 16, (1 << 16) + 1, 1 << 31, -(1 << 15), 1 << 32, -(mx + 1)]),
            st.integers(mx + 1, 1 << 40),
            st.integers(-(1 << 40), -1),
        )

    base = st.tuples(uint(3), uint(1), uint(1), uint(11), uint(2), uint(14), uint(16)).map(list)
    return st.one_of(
        st.fixed_dictionaries({"k": st.just("apid"), "base": base, "bad": oob(11)}),
        st.fixed_dictionaries({"k": st.just("count"), "base": base, "bad": oob(14)}),
        st.fixed_dictionaries({"k": st.just("dlen"), "base": base, "bad": oob(16)}),
        st.fixed_dictionaries({"k": st.just("short"), "base": base, "n": st.integers(0, 5)}),
    )


def check_refuse(case):
    sp = _sp()
    devs = []
    ver, ptype, shf, apid, flags, count, dlen = case["base"]
    k = case["k"]
    PT, SF = sp.PacketType(ptype), sp.SequenceFlags(flags)
    if k == "short":
        raw = R.sp_header(*case["base"])[: case["n"]]
        expect_raise(devs, "short.unpack", sp.SpacePacketHeader.unpack, raw)
        expect_raise(devs, "short.apid_from_raw", sp.get_apid_from_raw_space_packet, raw)
        return devs
    bad = case["bad"]
    if k == "apid":
        apid = bad
    elif k == "count":
        count = bad
    else:
        dlen = bad

    def ctor():
        return sp.SpacePacketHeader(packet_type=PT, apid=apid, seq_count=count, data_len=dlen, sec_header_flag=bool(shf), seq_flags=SF, ccsds_version=ver).pack()

    expect_raise(devs, f"{k}.ctor", ctor)
    if k == "apid":
        expect_raise(devs, "apid.PacketId", sp.PacketId, PT, bool(shf), bad)
        expect_raise(devs, "apid.helper_raw", sp.get_sp_packet_id_raw, PT, bool(shf), bad)
    if k == "count":
        expect_raise(devs, "count.PacketSeqCtrl", sp.PacketSeqCtrl, SF, bad)
        expect_raise(devs, "count.helper_raw", sp.get_sp_psc_raw, SF, bad)
    if k == "dlen":
        pid = sp.PacketId(PT, bool(shf), apid)
        psc = sp.PacketSeqCtrl(SF, count)

        def comp():
            return sp.SpacePacketHeader.from_composite_fields(pid, psc, bad, ver).pack()

        expect_raise(devs, "dlen.composite", comp)
    if k in ("apid", "count"):
        # the composite route with a field object whose value left its range after construction (plain attribute assignment)
        pid = sp.PacketId(PT, bool(shf), case["base"][3])
        psc = sp.PacketSeqCtrl(SF, case["base"][5])
        if k == "apid":
            pid.apid = bad
        else:
            psc.seq_count = bad
        expect_raise(devs, f"{k}.composite_with_modified_field_object", lambda: sp.SpacePacketHeader.from_composite_fields(pid, psc, case["base"][6], ver).pack())
    return devs


CLAUSES = [
    Clause(
        id="C01.words.exhaustive",
        doc="each of the three 16-bit header words takes all 2^16 values (other two drawn): decode, encode, id/psc words, helpers",
        kind="enum",
        enum=enum_words,
        check=check_header,
        nontrivial=_nontrivial_hdr,
        classify=_classify_hdr,
        required=["version != 0", "apid >= 0x400", "count == 0x3fff", "dlen == 0xffff", "flags != unsegmented", "trailing octets"],
        shards={"quick": 8, "thorough": 16},
        exhaustive_note="3 x 65536: every value of word 0 (version|type|flag|APID), word 1 (flags|count), word 2 (length)",
    ),
    Clause(
        id="C01.random",
        doc="boundary-weighted random 48-bit headers with 0..32 trailing octets, both directions",
        strategy=st_random,
        check=check_header,
        nontrivial=_nontrivial_hdr,
        classify=_classify_hdr,
        n={"quick": 2000, "thorough": 60000},
    ),
    Clause(
        id="C01.space_packet",
        doc="SpacePacket(header, sec, data).pack() == header | sec | data; mandatory parts enforced",
        strategy=st_packet,
        check=check_packet,
        nontrivial=lambda c: c["sec"] is not None or c["data"] is not None,
        classify=lambda c: ["sec given" if c["sec"] is not None else "sec none", "data given" if c["data"] is not None else "data none"],
        required=["sec given", "sec none", "data given", "data none"],
        n={"quick": 800, "thorough": 8000},
    ),
    Clause(
        id="C01.refuse",
        doc="APID / sequence count / data length out of range => ValueError; buffers shorter than 6 refused",
        strategy=st_refuse,
        check=check_refuse,
        classify=lambda c: [c["k"]],
        required=["apid", "count", "dlen", "short"],
        n={"quick": 1500, "thorough": 15000},
    ),
]

from ..names_check import names_clause  # noqa: E402

if names_clause("C01") is not None:
    CLAUSES.append(names_clause("C01"))

from ..envcheck import env_clauses  # noqa: E402

CLAUSES.extend(env_clauses("C01", ("ccsds",), n_quick=2, n_thorough=30))

PROPERTY = Property(
    id="C01",
    level="exploration",
    rule=(
        "per-word exhaustive sweeps (3 x 2^16 headers) plus boundary-weighted random 48-bit headers; oracle = reference "
        "encoder/parser written from CCSDS 133.0-B-2; non-trivial = version != 0 or APID > 0x3ff or count > 0xff or "
        "length > 0xff or flags != unsegmented (bits the repository suite never sets); distinct = distinct header+tail"
    ),
    clauses=CLAUSES,
    assumptions=[
        "vf/ref/ccsds.py is the trusted statement of the header layout (pinned by selftest vectors from the docs)",
        "ccsds_version is generated in 0..7 only (its range is not validated by the library nor claimed by the property)",
        "field setters bypass validation by design; not part of the statement",
    ],
)
