"""Names clauses: the code points the standards assign to named values, compared with the library's enumerations.

Finite domain, enumerated completely: one item per (enumeration, standard name), per code point of a complete table, and per
library member (its code point must be one the standard assigns).  Reference = vf/ref/names.py."""
from __future__ import annotations

import importlib

from .core import Clause, Dev
from .ref import names as N


def _items(prop_id):
    out = []
    for key, spec in N.STANDARD.items():
        if N.owner(key) != prop_id:
            continue
        for name, v in spec["values"].items():
            out.append({"k": "name", "mod": key[0], "enum": key[1], "name": name, "value": v})
            if spec["complete"]:
                out.append({"k": "codepoint", "mod": key[0], "enum": key[1], "name": name, "value": v})
        if spec["complete"]:
            out.append({"k": "members", "mod": key[0], "enum": key[1], "allowed": sorted(set(spec["values"].values())), "extra_ok": sorted(spec.get("extra_ok", ()))})
    for key, vals in N.PINNED.items():
        if N.owner(key) != prop_id:
            continue
        for name, v in vals.items():
            out.append({"k": "pinned", "mod": key[0], "enum": key[1], "name": name, "value": v})
    if prop_id == "C08":
        for name, (a, s) in N.FILESTORE_STATUS_NAMES.items():
            out.append({"k": "name", "mod": "spacepackets.cfdp.tlv.defs", "enum": "FilestoreResponseStatusCode", "name": name, "value": (a << 4) | s})
        for a, d in N.FILESTORE_STATUS.items():
            for s in d:
                out.append({"k": "codepoint", "mod": "spacepackets.cfdp.tlv.defs", "enum": "FilestoreResponseStatusCode", "name": f"action {a}: {d[s]}", "value": (a << 4) | s})
        allowed = sorted({(a << 4) | s for a, d in N.FILESTORE_STATUS.items() for s in d})
        out.append({"k": "members", "mod": "spacepackets.cfdp.tlv.defs", "enum": "FilestoreResponseStatusCode", "allowed": allowed,
                    "extra_ok": ["SUCCESS", "NOT_PERFORMED", "APPEND_FROM_DATA_FILE_NOT_EXISTS", "INVALID"]})
    return out


def check_item(c):
    E = getattr(importlib.import_module(c["mod"]), c["enum"])
    devs = []
    tag = f"{c['enum']}"
    if c["k"] in ("name", "pinned"):
        m = E.__members__.get(c["name"])
        if m is None:
            devs.append(Dev(f"names.{tag}.{c['name']}:missing", f"{c['enum']} has no member {c['name']} (code point {c['value']:#x} in the standard)"))
        elif int(m.value) != c["value"]:
            devs.append(Dev(f"names.{tag}.{c['name']}:value", f"{c['enum']}.{c['name']} == {int(m.value):#x}, the standard assigns {c['value']:#x}"))
    elif c["k"] == "codepoint":
        try:
            E(c["value"])
        except ValueError:
            devs.append(Dev(f"names.{tag}.codepoint_{c['value']:#x}:not_representable", f"{c['enum']}({c['value']:#x}) is refused: the standard's '{c['name']}' cannot be expressed"))
    elif c["k"] == "members":
        for name, m in E.__members__.items():
            if name in c["extra_ok"]:
                continue
            if int(m.value) not in c["allowed"]:
                devs.append(Dev(f"names.{tag}.{name}:unassigned_code_point", f"{c['enum']}.{name} == {int(m.value):#x}, which the standard does not assign"))
    return devs


def names_clause(prop_id):
    items = _items(prop_id)
    if not items:
        return None

    def enum(tier, shard, nshards, rng):
        for i, it in enumerate(items):
            if i % nshards == shard:
                yield it

    kinds = sorted({it["k"] for it in items})
    return Clause(
        id=f"{prop_id}.names",
        doc="named values: every name the standard defines has the standard's code point, every code point of a completely assigned field can be expressed, no member carries an "
            "unassigned code point (tables written from the standards: vf/ref/names.py; 'pinned' = snapshot of the pinned commit for names not reproduced from a standard)",
        kind="enum", enum=enum, check=check_item,
        classify=lambda c: [c["k"], c["enum"]], required=kinds, shards={"quick": 1, "thorough": 1},
        exhaustive_note=f"all {len(items)} (enumeration, name / code point) items owned by {prop_id}",
    )
