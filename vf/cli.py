"""./check <Cnn> [quick|thorough] [--replay <file>] [--only <regex>] [--procs N]"""
from __future__ import annotations

import argparse
import os
import sys
import traceback


def main(argv=None) -> int:
    ap = argparse.ArgumentParser(prog="check")
    ap.add_argument("property")
    ap.add_argument("tier", nargs="?", default=None, choices=["quick", "thorough"])
    ap.add_argument("--replay")
    ap.add_argument("--only")
    ap.add_argument("--procs", type=int)
    a = ap.parse_args(argv)
    tier = a.tier or os.environ.get("VERIF_TIER") or "quick"
    if tier not in ("quick", "thorough"):
        tier = "quick"
    try:
        seed = int(os.environ.get("VERIF_SEED", "1") or "1")
    except ValueError:
        seed = 1
    try:
        from . import deps

        deps.ensure()
        from .ref import selftest

        selftest.run()
        from . import engine

        if a.replay:
            return engine.replay(a.property.upper(), a.replay)
        return engine.run_property(a.property.upper(), tier, seed, only=a.only, procs=a.procs)
    except SystemExit:
        raise
    except BaseException:  # noqa: BLE001 - any harness failure is exit 2, never a VIOLATION
        traceback.print_exc()
        print("HARNESS-ERROR (exit 2): the check itself failed; no verdict", file=sys.stderr)
        return 2


if __name__ == "__main__":
    sys.exit(main())
