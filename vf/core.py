"""Core data types of the verification framework: deviations, clauses, history specs.

A *clause* is the unit that has one generator, one oracle and one stable id.  Cases are plain
JSON-serialisable data; the oracle (``check``) builds library objects from the case itself, so a
replay file is just the case.
"""
from __future__ import annotations

import hashlib
import json
import os
import traceback
from dataclasses import dataclass, field
from typing import Any, Callable, Dict, Iterable, List, Optional

REPO = os.path.realpath(os.environ.get("VERIF_REPO", "/repo"))
LIB_DIR = os.path.join(REPO, "spacepackets") + os.sep


@dataclass
class Dev:
    """One deviation from the property: ``sub`` names the sub-assertion, ``detail`` is free text."""

    sub: str
    detail: str = ""


class HarnessError(Exception):
    """Something is wrong with the machinery itself (exit 2, never a VIOLATION)."""


def canon(case: Any) -> str:
    return json.dumps(case, sort_keys=True, separators=(",", ":"), default=_json_default)


def _json_default(o):
    if isinstance(o, (bytes, bytearray)):
        return {"__hex__": bytes(o).hex()}
    raise TypeError(f"case is not plain data: {type(o)}")


def digest(case: Any) -> int:
    return int.from_bytes(hashlib.blake2b(canon(case).encode(), digest_size=8).digest(), "big")


def derive_seed(base: int, *parts: Any) -> int:
    h = hashlib.blake2b(repr((base,) + parts).encode(), digest_size=8).digest()
    return int.from_bytes(h, "big") >> 1


def lib_frame_of(exc: BaseException):
    """Innermost traceback frame that lies inside the library under test, or None."""
    tb = traceback.extract_tb(exc.__traceback__)
    for fr in reversed(tb):
        fn = os.path.realpath(fr.filename)
        if fn.startswith(LIB_DIR):
            return os.path.relpath(fn, LIB_DIR), fr.name
    return None


def exc_sub(exc: BaseException, prefix: str = "exc") -> Optional[str]:
    fr = lib_frame_of(exc)
    if fr is None:
        return None
    return f"{prefix}:{type(exc).__name__}@{fr[0]}:{fr[1]}"


@dataclass
class Clause:
    id: str
    doc: str
    kind: str = "given"  # given | enum | history | fuzz
    strategy: Optional[Callable[[], Any]] = None  # given: () -> hypothesis strategy of cases
    enum: Optional[Callable[[str, int, int, Any], Iterable[Any]]] = None  # (tier, shard, nshards, rng)
    history: Optional["HistorySpec"] = None
    check: Optional[Callable[[Any], List[Dev]]] = None
    nontrivial: Callable[[Any], bool] = lambda case: True
    classify: Callable[[Any], List[str]] = lambda case: []
    required: List[str] = field(default_factory=list)
    rule: str = ""
    n: Dict[str, int] = field(default_factory=lambda: {"quick": 300, "thorough": 3000})
    shards: Dict[str, int] = field(default_factory=lambda: {"quick": 1, "thorough": 16})
    exhaustive_note: str = ""
    last_evals: int = 1
    weight_by_evals: bool = False  # each of the n sub-evaluations of a case is a distinct non-trivial item (fault enumeration)
    tiers: tuple = ("quick", "thorough")  # tiers in which the clause runs
    fuzz: Optional[Dict[str, Any]] = None  # kind == "fuzz": {"prop": "C10", "runs": {"thorough": N}, "seeded": k}
    shrink_cap: Optional[int] = None  # upper bound on shrink evaluations for expensive oracles (child processes); None = the tier's default

    def run_check(self, case) -> List[Dev]:
        """Run the oracle on one case; library exceptions that escape become deviations.

        An oracle may return ``(deviations, n)`` to say that the case comprised ``n`` oracle
        evaluations (e.g. n injected faults); ``last_evals`` then carries n to the evidence."""
        self.last_evals = 1
        if self.kind == "history":
            return self.history.run_trace(case)

        def call(c):
            r = self.check(c)
            if isinstance(r, tuple):
                self.last_evals = int(r[1])
                return r[0]
            return r

        return guarded(call, case)


def enum_refusal_sub(exc: BaseException) -> Optional[str]:
    """``LibraryEnum(code point)`` refused a value the harness took from a standard's table: that is the library not knowing a code
    point of the standard (a deviation), not a slip of the harness.  Only for enumerations defined inside the library."""
    import enum
    import re
    import sys

    if not isinstance(exc, ValueError):
        return None
    m = re.fullmatch(r"(-?\d+) is not a valid (\w+)", str(exc))
    if not m:
        return None
    for name, mod in list(sys.modules.items()):
        if name.startswith("spacepackets") and mod is not None:
            cls = getattr(mod, m.group(2), None)
            if isinstance(cls, type) and issubclass(cls, enum.Enum) and cls.__module__.startswith("spacepackets"):
                return f"enum:{m.group(2)}:refuses_code_point_{m.group(1)}"
    return None


def guarded(fn, *args) -> List[Dev]:
    try:
        return list(fn(*args) or [])
    except HarnessError:
        raise
    except Exception as e:  # noqa: BLE001 - classified below
        sub = exc_sub(e) or enum_refusal_sub(e)
        if sub is None:
            raise
        return [Dev(sub, f"{type(e).__name__}: {e}"[:300])]


class HistorySpec:
    """A model-based history test.

    Subclasses define ``init_strategy()``, ``ops()`` (name -> strategy of plain-data args),
    ``start(params)`` -> state, ``step(state, name, args)`` -> deviations,
    ``invariant(state)`` -> deviations and optionally ``enabled(state, name)`` and
    ``teardown(state)``.  The engine turns this into a hypothesis RuleBasedStateMachine for
    generation and into a plain interpreter for replay files.
    """

    max_steps = 30

    def init_strategy(self):
        raise NotImplementedError

    def ops(self) -> Dict[str, Any]:
        raise NotImplementedError

    def start(self, params):
        raise NotImplementedError

    def step(self, state, name, args) -> List[Dev]:
        raise NotImplementedError

    def invariant(self, state) -> List[Dev]:
        return []

    def enabled(self, state, name) -> bool:
        return True

    def teardown(self, state) -> None:
        pass

    # plain interpreter ------------------------------------------------------------------
    def run_trace(self, trace) -> List[Dev]:
        devs: List[Dev] = []
        state = None
        try:
            r = guarded_state(self.start, trace["init"])
            if isinstance(r, list):
                return r
            state = r
            devs = guarded(self.invariant, state)
            if devs:
                return [Dev(d.sub, f"after init: {d.detail}") for d in devs]
            for i, (name, args) in enumerate(trace["steps"]):
                if not self.enabled(state, name):
                    continue
                devs = guarded(self.step, state, name, args)
                if not devs:
                    devs = guarded(self.invariant, state)
                if devs:
                    return [Dev(d.sub, f"step {i} {name}: {d.detail}") for d in devs]
            return []
        finally:
            if state is not None:
                self.teardown(state)


def guarded_state(fn, *args):
    try:
        return fn(*args)
    except HarnessError:
        raise
    except Exception as e:  # noqa: BLE001
        sub = exc_sub(e) or enum_refusal_sub(e)
        if sub is None:
            raise
        return [Dev(sub, f"{type(e).__name__}: {e}"[:300])]


# ---- small helpers for oracles --------------------------------------------------------------


def expect_raise(devs: List[Dev], sub: str, fn, *args, accept=(ValueError,), **kw):
    """``fn(*args)`` must raise one of ``accept``; returning is a deviation, other exceptions too."""
    try:
        r = fn(*args, **kw)
    except accept:
        return None
    except Exception as e:  # noqa: BLE001
        if lib_frame_of(e) is None:
            raise
        devs.append(Dev(f"{sub}:wrong_exc:{type(e).__name__}", f"{type(e).__name__}: {e}"[:200]))
        return None
    devs.append(Dev(f"{sub}:accepted", f"returned {short(r)}"))
    return r


def short(x, n=160) -> str:
    s = repr(x)
    return s if len(s) <= n else s[: n - 3] + "..."


def eq(devs: List[Dev], sub: str, got, want, what: str = ""):
    if isinstance(got, bytearray):
        got = bytes(got)
    if isinstance(want, bytearray):
        want = bytes(want)
    if got != want or (type(got) is bool) != (type(want) is bool) and False:
        g = got.hex() if isinstance(got, bytes) else short(got)
        w = want.hex() if isinstance(want, bytes) else short(want)
        devs.append(Dev(sub, f"{what} got {g} want {w}"[:400]))
        return False
    return True


def true(devs: List[Dev], sub: str, cond, detail: str = ""):
    if not cond:
        devs.append(Dev(sub, detail[:400]))
        return False
    return True


# ---- history perturbations (aliasing / stale-cache detectors) ---------------------------------------


def scribble(buf) -> bool:
    """What a caller may legitimately do with a buffer it owns: overwrite and extend it in place.
    Returns False for immutable buffers (nothing to do)."""
    if isinstance(buf, bytearray):
        for i in range(len(buf)):
            buf[i] ^= 0xA5
        try:
            buf.extend(b"\xee\xee\xee")
        except BufferError:
            # somebody holds a memoryview on the caller's buffer; the overwrite above already shows whether that matters
            pass
        return True
    return False


def child_python(prog: str, args=(), flags=(), env_extra=None, timeout=180):
    """Run ``prog`` in a fresh interpreter (first use of the library in a process, other interpreter flags, other locale).
    argv[1] is the repository path (the child puts it first on sys.path); the child prints one JSON document on stdout.
    A child that does not deliver one is a harness error."""
    import json
    import subprocess
    import sys

    env = {"PATH": "/usr/bin:/bin", "PYTHONDONTWRITEBYTECODE": "1", "PYTHONHASHSEED": "0", "LC_ALL": "C.UTF-8", "VERIF_REPO": REPO}
    env.update(env_extra or {})
    r = subprocess.run([sys.executable, "-B", *flags, "-c", "import sys; sys.path.insert(0, sys.argv[1])\n" + prog, REPO, *args], env=env, capture_output=True, timeout=timeout)
    if r.returncode != 0:
        raise RuntimeError("child interpreter failed: " + r.stderr.decode("ascii", "replace")[-600:])
    return json.loads(r.stdout.decode("ascii"))


def copies_equal(devs: List[Dev], sub: str, obj, view, want):
    """A deep copy and a pickle round trip of a library object are usable objects that show what the original shows
    (``view(copy) == want``).  Applications keep, queue and ship these objects; shallow copies are not examined."""
    import copy
    import pickle

    for how, mk in (("deepcopy", lambda: copy.deepcopy(obj)), ("pickle", lambda: pickle.loads(pickle.dumps(obj)))):
        try:
            c = mk()
        except Exception as e:  # noqa: BLE001 - the object cannot be copied at all
            devs.append(Dev(f"{sub}.{how}:raises_{type(e).__name__}", f"{type(obj).__name__}: {e}"[:200]))
            continue
        eq(devs, f"{sub}.{how}", view(c), want)


def pack_fresh(devs: List[Dev], sub: str, pack, want: bytes, **kw):
    """pack() must hand out octets the caller may modify: scribbling over a returned buffer must not
    change what the next pack() of the unchanged object returns."""
    first = pack(**kw)
    ok = eq(devs, sub, bytes(first), want)
    if scribble(first):
        eq(devs, sub + ".after_caller_modified_returned_buffer", bytes(pack(**kw)), want, "pack() after the caller overwrote the previously returned buffer:")
    return ok
