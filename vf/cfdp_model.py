"""Plain-data descriptions of CFDP PDUs / TLVs: generators, library builders, observers.

Shared by C04, C06-C12, C18.  A case is JSON data; ``build_*`` turns it into library objects,
``vf.ref.cfdp`` turns the same case into the octets the standard prescribes, ``obs_*`` reads
every user-visible field back from a library object.
"""
from __future__ import annotations

from hypothesis import strategies as st

from .ref import cfdp as R
from .strategies import expand_fill, hexblob, name, uint

WIDTHS = (1, 2, 4, 8)
CONDITION_CODES = (0, 1, 2, 3, 4, 5, 6, 7, 8, 9, 10, 11, 14, 15)  # 727.0-B-5 table 5-5 (12 and 13 are reserved)
EOF_FAULT_CCS = tuple(c for c in CONDITION_CODES if c != 0)
FIN_FAULT_CCS = tuple(c for c in CONDITION_CODES if c not in (0, 11))
CHECKSUM_TYPES = (0, 1, 2, 3, 15)
FAULT_HANDLERS = (1, 2, 3, 4)
ACTIONS = tuple(range(9))
KINDS = ("eof", "finished", "ack", "metadata", "nak", "prompt", "keepalive", "filedata")


# ---- configuration ---------------------------------------------------------------------------


def st_conf(segctrl=False, crc=None, large=None):
    def with_widths(w):
        idw, seqw = w
        return st.fixed_dictionaries(
            {
                "crc": st.integers(0, 1) if crc is None else st.just(crc),
                "large": st.integers(0, 1) if large is None else st.just(large),
                "mode": st.integers(0, 1),
                "dir": st.integers(0, 1),
                "segctrl": st.integers(0, 1) if segctrl else st.just(0),
                "idw": st.just(idw),
                "seqw": st.just(seqw),
                "src": uint(8 * idw),
                "dst": uint(8 * idw),
                "seq": uint(8 * seqw),
            }
        )

    return st.tuples(st.sampled_from(WIDTHS), st.sampled_from(WIDTHS)).flatmap(with_widths)


def build_conf(c):
    from spacepackets.cfdp import conf as cf
    from spacepackets.cfdp import defs as d
    from spacepackets.util import ByteFieldGenerator

    return cf.PduConfig(
        source_entity_id=ByteFieldGenerator.from_int(c["idw"], c["src"]),
        dest_entity_id=ByteFieldGenerator.from_int(c["idw"], c["dst"]),
        transaction_seq_num=ByteFieldGenerator.from_int(c["seqw"], c["seq"]),
        trans_mode=d.TransmissionMode(c["mode"]),
        file_flag=d.LargeFileFlag(c["large"]),
        crc_flag=d.CrcFlag(c["crc"]),
        direction=d.Direction(c["dir"]),
        seg_ctrl=d.SegmentationControl(c["segctrl"]),
    )


def obs_conf_obj(pc) -> dict:
    """Snapshot of a caller-side PduConfig (for the 'caller inputs untouched' clause)."""
    return {
        "src": (int(pc.source_entity_id.value), pc.source_entity_id.byte_len),
        "dst": (int(pc.dest_entity_id.value), pc.dest_entity_id.byte_len),
        "seq": (int(pc.transaction_seq_num.value), pc.transaction_seq_num.byte_len),
        "mode": int(pc.trans_mode),
        "large": int(pc.file_flag),
        "crc": int(pc.crc_flag),
        "dir": int(pc.direction),
        "segctrl": int(pc.seg_ctrl),
    }


def conf_nontrivial(c) -> bool:
    return bool(c["crc"] or c["large"] or c["idw"] != 1 or c["seqw"] != 1)


def conf_classes(c):
    out = []
    out.append("crc on" if c["crc"] else "crc off")
    out.append("large file" if c["large"] else "normal file")
    if c["idw"] != 1:
        out.append(f"id width {c['idw']}")
    if c["seqw"] != 1:
        out.append(f"seq width {c['seqw']}")
    return out


# ---- TLVs ------------------------------------------------------------------------------------


def valid_statuses(action: int):
    """The 4-bit status codes that 727.0-B-5 table 5-18 defines for an action code (vf/ref/names.py, not the library's enumeration)."""
    from .ref.names import FILESTORE_STATUS

    return sorted(FILESTORE_STATUS[action])


def st_entity_tlv():
    # an entity id in a TLV is 1..8 octets long (727.0-B-5 5.4.6); the header of THIS library knows the widths 1, 2, 4, 8 only, its TLV any
    return st.sampled_from(WIDTHS + WIDTHS + (3, 5, 6, 7)).flatmap(lambda w: uint(8 * w).map(lambda v: {"t": "entity", "id": v.to_bytes(w, "big").hex()}))


def st_flow_tlv(maxlen=32):
    return hexblob(maxlen).map(lambda v: {"t": "flow", "v": v})


def st_msg_tlv(maxlen=32):
    return hexblob(maxlen).map(lambda v: {"t": "msg", "v": v})


def st_fault_tlv():
    return st.fixed_dictionaries({"t": st.just("fault"), "cc": st.sampled_from(CONDITION_CODES), "handler": st.sampled_from(FAULT_HANDLERS)})


def st_fsreq_tlv(name_budget=20):
    return st.fixed_dictionaries({"t": st.just("fsreq"), "action": st.sampled_from(ACTIONS), "n1": name(name_budget), "n2": name(name_budget)})


def st_fsresp_tlv(name_budget=20, msg_budget=16, min_chars=0):
    def with_action(a):
        return st.fixed_dictionaries(
            {"t": st.just("fsresp"), "action": st.just(a), "status": st.sampled_from(valid_statuses(a)), "n1": name(name_budget, min_chars), "n2": name(name_budget, min_chars),
             "msg": hexblob(msg_budget)}
        )

    return st.sampled_from(ACTIONS).flatmap(with_action)


def st_option_tlv():
    return st.one_of(st_flow_tlv(12), st_msg_tlv(16), st_fault_tlv(), st_fsreq_tlv(10))


def build_tlv(d, plain_ints=False):
    from spacepackets.cfdp import defs as cd
    from spacepackets.cfdp import tlv as T
    from spacepackets.cfdp.lv import CfdpLv

    t = d["t"]
    if plain_ints:  # enumerated parameters as the plain integers a decoder exposes
        if t == "fault":
            return T.FaultHandlerOverrideTlv(int(d["cc"]), int(d["handler"]))
        if t == "fsreq":
            return T.FileStoreRequestTlv(int(d["action"]), d["n1"], d["n2"])
        if t == "fsresp":
            return T.FileStoreResponseTlv(int(d["action"]), T.FilestoreResponseStatusCode((d["action"] << 4) | d["status"]), d["n1"], d["n2"], CfdpLv(bytes.fromhex(d["msg"])))
    if t == "entity":
        return T.EntityIdTlv(bytes.fromhex(d["id"]))
    if t == "flow":
        return T.FlowLabelTlv(bytes.fromhex(d["v"]))
    if t == "msg":
        return T.MessageToUserTlv(bytes.fromhex(d["v"]))
    if t == "fault":
        return T.FaultHandlerOverrideTlv(cd.ConditionCode(d["cc"]), cd.FaultHandlerCode(d["handler"]))
    if t == "fsreq":
        return T.FileStoreRequestTlv(T.FilestoreActionCode(d["action"]), d["n1"], d["n2"])
    if t == "fsresp":
        return T.FileStoreResponseTlv(
            T.FilestoreActionCode(d["action"]), T.FilestoreResponseStatusCode((d["action"] << 4) | d["status"]), d["n1"], d["n2"], CfdpLv(bytes.fromhex(d["msg"]))
        )
    if t == "raw":
        return T.CfdpTlv(T.TlvType(d["type"]), bytes.fromhex(d["v"]))
    raise ValueError(t)


def obs_tlv(x) -> dict:
    """Generic observation of any TLV object: type and value octets, packed form and length."""
    packed = bytes(x.pack())
    return {"type": int(x.tlv_type), "value": bytes(x.value).hex(), "packed": packed.hex(), "packet_len": int(x.packet_len)}


def want_tlv_obs(d) -> dict:
    t, v = R.tlv_value(d)
    return {"type": t, "value": v.hex(), "packed": R.tlv(t, v).hex(), "packet_len": len(v) + 2}


# ---- PDUs ------------------------------------------------------------------------------------


def st_fss(conf):
    return uint(64 if conf["large"] else 32)


def st_pdu(kind, conf_strategy=None, small=False):
    # the segmentation-control bit has a meaning for File Data only, but it is a header bit like any other: whatever the caller's
    # configuration says is packed, and a decoder must hand it back
    cs = conf_strategy if conf_strategy is not None else st_conf(segctrl=True)
    return cs.flatmap(lambda c: _st_pdu_for(kind, c, small))


def _st_pdu_for(kind, c, small=False):
    cj = st.just(c)
    if kind == "eof":
        def fault_for(cc):
            return st.one_of(st.none(), st_entity_tlv().map(lambda t: t["id"])) if cc != 0 else st.none()

        return st.sampled_from(CONDITION_CODES).flatmap(
            lambda cc: st.fixed_dictionaries(
                {"kind": st.just("eof"), "conf": cj, "cc": st.just(cc), "checksum": st.binary(min_size=4, max_size=4).map(bytes.hex), "size": st_fss(c), "fault": fault_for(cc)}
            )
        )
    if kind == "finished":
        def for_cc(cc):
            fault = st.one_of(st.none(), st_entity_tlv().map(lambda t: t["id"])) if cc in FIN_FAULT_CCS else st.none()
            return st.fixed_dictionaries(
                {
                    "kind": st.just("finished"), "conf": cj, "cc": st.just(cc), "delivery": st.integers(0, 1), "status": st.integers(0, 3),
                    "responses": st.lists(st_fsresp_tlv(10, 6), max_size=2) if small else st.one_of(
                        st.lists(st_fsresp_tlv(20, 16), max_size=3), st.lists(st_fsresp_tlv(20, 16), max_size=3),
                        st.lists(st_fsresp_tlv(110, 20, min_chars=25), min_size=2, max_size=5),  # data field well beyond 255 / 256 octets, repeated elements likely
                        st_fsresp_tlv(20, 16).flatmap(lambda r: st.integers(2, 4).map(lambda k: [r] * k)),  # the same response several times
                    ), "fault": fault,
                }
            )

        return st.sampled_from(CONDITION_CODES).flatmap(for_cc)
    if kind == "ack":
        return st.fixed_dictionaries(
            {"kind": st.just("ack"), "conf": cj, "acked": st.sampled_from([R.EOF, R.FINISHED]), "cc": st.sampled_from(CONDITION_CODES), "status": st.integers(0, 3)}
        )
    if kind == "metadata":
        nm = st.one_of(st.none(), name(12, min_chars=1)) if small else st.one_of(st.none(), name(40, min_chars=1), name(40, min_chars=1), name(255, min_chars=100))
        return st.fixed_dictionaries(
            {
                "kind": st.just("metadata"), "conf": cj, "closure": st.booleans(), "cktype": st.sampled_from(CHECKSUM_TYPES), "size": st_fss(c),
                "src_name": nm, "dst_name": nm, "options": st.one_of(st.none(), st.lists(st_option_tlv(), min_size=1, max_size=3)) if small else st.one_of(
                    st.none(), st.lists(st_option_tlv(), min_size=1, max_size=3), st.lists(st_option_tlv(), min_size=1, max_size=3),
                    st.lists(st.one_of(st_flow_tlv(255), st_msg_tlv(255), st_fsreq_tlv(100)), min_size=2, max_size=5),
                    st_option_tlv().flatmap(lambda o: st.integers(2, 4).map(lambda k: [o] * k)),  # the same option several times
                ),
            }
        )
    if kind == "nak":
        seg = st.tuples(st_fss(c), st_fss(c)).map(list)
        segs = st.lists(seg, max_size=3) if small else st.one_of(st.lists(seg, max_size=6), st.lists(seg, max_size=6), st.lists(seg, min_size=17, max_size=40),
                                                                  seg.flatmap(lambda x: st.integers(2, 5).map(lambda k: [x] * k)))
        return st.fixed_dictionaries({"kind": st.just("nak"), "conf": cj, "start": st_fss(c), "end": st_fss(c), "segs": segs})
    if kind == "prompt":
        return st.fixed_dictionaries({"kind": st.just("prompt"), "conf": cj, "resp": st.integers(0, 1)})
    if kind == "keepalive":
        return st.fixed_dictionaries({"kind": st.just("keepalive"), "conf": cj, "progress": st_fss(c)})
    if kind == "filedata":
        meta = st.one_of(st.none(), st.fixed_dictionaries({"state": st.integers(0, 3), "data": st.one_of(hexblob(8), hexblob(63), st.binary(min_size=63, max_size=63).map(bytes.hex))}))
        return st.fixed_dictionaries(
            {"kind": st.just("filedata"), "conf": cj, "offset": st_fss(c), "data": st.one_of(st.just(""), hexblob(1, 1), hexblob(2, 2), hexblob(16 if small else 48)), "meta": meta}
        )
    raise ValueError(kind)


def st_any_pdu(small=False, conf_strategy=None):
    return st.sampled_from(KINDS).flatmap(lambda k: st_pdu(k, conf_strategy, small))


def pdu_class(kind):
    from spacepackets.cfdp import pdu as P

    return {
        "eof": P.EofPdu, "finished": P.FinishedPdu, "ack": P.AckPdu, "metadata": P.MetadataPdu, "nak": P.NakPdu,
        "prompt": P.PromptPdu, "keepalive": P.KeepAlivePdu, "filedata": P.FileDataPdu,
    }[kind]


def file_data_of(p) -> bytes:
    return expand_fill(p["data"])


class _PlainInts:
    """Stand-in for the enum modules: hands the documented plain-integer values through unchanged."""

    def __getattr__(self, name):
        return lambda v: int(v)


def build_pdu(p, conf_obj=None, plain_ints=False):
    """Library PDU object from a plain-data description.  With ``plain_ints`` the enumerated parameters (condition code, delivery
    code, file status, directive code, checksum type, transaction status, response flag, continuation state) are passed as the plain
    integers a decoder exposes instead of enum members."""
    from spacepackets.cfdp import defs as cd
    from spacepackets.cfdp import pdu as P
    from spacepackets.cfdp.pdu.file_data import RecordContinuationState, SegmentMetadata
    from spacepackets.cfdp.pdu.prompt import ResponseRequired

    conf = conf_obj if conf_obj is not None else build_conf(p["conf"])
    k = p["kind"]
    if plain_ints:
        ints = _PlainInts()
        cd_e, RecordContinuationState, ResponseRequired = ints, ints.x, ints.x
        DirT, TrS = ints.x, ints.x
    else:
        cd_e, DirT, TrS = cd, P.DirectiveType, P.TransactionStatus
    if k == "eof":
        fault = None if p.get("fault") is None else build_tlv({"t": "entity", "id": p["fault"]})
        return P.EofPdu(conf, bytes.fromhex(p["checksum"]), p["size"], fault, cd_e.ConditionCode(p["cc"]))
    if k == "finished":
        fault = None if p.get("fault") is None else build_tlv({"t": "entity", "id": p["fault"]})
        params = P.FinishedParams(
            condition_code=cd_e.ConditionCode(p["cc"]), delivery_code=cd_e.DeliveryCode(p["delivery"]), file_status=cd_e.FileStatus(p["status"]),
            file_store_responses=[build_tlv(r) for r in p.get("responses") or []], fault_location=fault,
        )
        return P.FinishedPdu(conf, params)
    if k == "ack":
        return P.AckPdu(conf, DirT(p["acked"]), cd_e.ConditionCode(p["cc"]), TrS(p["status"]))
    if k == "metadata":
        params = P.MetadataParams(bool(p["closure"]), cd_e.ChecksumType(p["cktype"]), p["size"], p["src_name"], p["dst_name"])
        opts = None if p.get("options") is None else [build_tlv(o) for o in p["options"]]
        return P.MetadataPdu(conf, params, opts)
    if k == "nak":
        return P.NakPdu(conf, p["start"], p["end"], [tuple(s) for s in p["segs"]])
    if k == "prompt":
        return P.PromptPdu(conf, ResponseRequired(p["resp"]))
    if k == "keepalive":
        return P.KeepAlivePdu(conf, p["progress"])
    if k == "filedata":
        meta = None
        if p.get("meta") is not None:
            meta = SegmentMetadata(RecordContinuationState(p["meta"]["state"]), bytes.fromhex(p["meta"]["data"]))
        return P.FileDataPdu(conf, P.FileDataParams(file_data_of(p), p["offset"], meta))
    raise ValueError(k)


def _field(f):
    return [int(f.value), int(f.byte_len)]


def obs_header(h) -> dict:
    return {
        "pdu_type": int(h.pdu_type), "dir": int(h.direction), "mode": int(h.transmission_mode), "crc": int(h.crc_flag), "large": int(h.file_flag),
        "segctrl": int(h.seg_ctrl), "seg_meta": int(h.segment_metadata_flag), "dlen": int(h.pdu_data_field_len),
        "src": _field(h.source_entity_id), "seq": _field(h.transaction_seq_num), "dst": _field(h.dest_entity_id),
        "header_len": int(h.header_len), "packet_len": int(h.packet_len),
    }


def want_header_obs(p, raw: bytes) -> dict:
    c = p["conf"]
    hl = R.header_len(c)
    return {
        "pdu_type": 1 if p["kind"] == "filedata" else 0, "dir": R.direction_of(p), "mode": c["mode"], "crc": c["crc"], "large": c["large"],
        "segctrl": c["segctrl"], "seg_meta": int(p["kind"] == "filedata" and p.get("meta") is not None), "dlen": len(raw) - hl,
        "src": [c["src"], c["idw"]], "seq": [c["seq"], c["seqw"]], "dst": [c["dst"], c["idw"]], "header_len": hl, "packet_len": len(raw),
    }


def _hex(b):
    return None if b is None else bytes(b).hex()


def obs_pdu(x, kind) -> dict:
    """Every user-visible parameter of a PDU object (header included)."""
    if type(x) is not pdu_class(kind):
        # (a decoder that hands back another class: reported as what was observed, not as a slip of the harness)
        return {"object of another class": type(x).__name__}
    o = {"header": obs_header(x.pdu_header), "packet_len": int(x.packet_len)}
    if kind == "eof":
        o.update(cc=int(x.condition_code), checksum=_hex(x.file_checksum), size=int(x.file_size), fault=None if x.fault_location is None else _hex(x.fault_location.value))
    elif kind == "finished":
        o.update(
            cc=int(x.condition_code), delivery=int(x.delivery_code), status=int(x.file_status),
            responses=[obs_fsresp(r) for r in (x.file_store_responses or [])], fault=None if x.fault_location is None else _hex(x.fault_location.value),
        )
    elif kind == "ack":
        o.update(acked=int(x.directive_code_of_acked_pdu), subtype=int(x.directive_subtype_code), cc=int(x.condition_code_of_acked_pdu), status=int(x.transaction_status))
    elif kind == "metadata":
        opts = x.options
        o.update(
            closure=bool(x.closure_requested), cktype=int(x.checksum_type), size=int(x.file_size), src_name=x.source_file_name, dst_name=x.dest_file_name,
            options=None if not opts else [[int(t.tlv_type), _hex(t.value)] for t in opts],
        )
    elif kind == "nak":
        o.update(start=int(x.start_of_scope), end=int(x.end_of_scope), segs=[[int(a), int(b)] for a, b in x.segment_requests])
    elif kind == "prompt":
        o.update(resp=int(x.response_required))
    elif kind == "keepalive":
        o.update(progress=int(x.progress))
    elif kind == "filedata":
        sm = x.segment_metadata
        o.update(offset=int(x.offset), data=_hex(x.file_data), meta=None if sm is None else {"state": int(sm.record_cont_state), "data": _hex(sm.metadata)},
                 has_meta=bool(x.has_segment_metadata))
    return o


def obs_fsresp(r) -> dict:
    second = r.second_file_name if int(r.action_code) in R.SECOND_NAME_ACTIONS else ""
    return {"action": int(r.action_code), "status": int(r.status_code) & 0x0F, "n1": r.first_file_name, "n2": second, "msg": _hex(r.filestore_msg.value)}


def want_pdu_obs(p, raw: bytes) -> dict:
    k = p["kind"]
    o = {"header": want_header_obs(p, raw), "packet_len": len(raw)}
    if k == "eof":
        o.update(cc=p["cc"], checksum=p["checksum"], size=p["size"], fault=p.get("fault"))
    elif k == "finished":
        o.update(cc=p["cc"], delivery=p["delivery"], status=p["status"], fault=p.get("fault"),
                 responses=[{"action": r["action"], "status": r["status"], "n1": r["n1"], "n2": r["n2"] if r["action"] in R.SECOND_NAME_ACTIONS else "", "msg": r["msg"]} for r in p.get("responses") or []])
    elif k == "ack":
        o.update(acked=p["acked"], subtype=1 if p["acked"] == R.FINISHED else 0, cc=p["cc"], status=p["status"])
    elif k == "metadata":
        opts = p.get("options")
        o.update(closure=bool(p["closure"]), cktype=p["cktype"], size=p["size"], src_name=p["src_name"] or None, dst_name=p["dst_name"] or None,
                 options=None if not opts else [[R.tlv_value(t)[0], R.tlv_value(t)[1].hex()] for t in opts])
    elif k == "nak":
        o.update(start=p["start"], end=p["end"], segs=[list(s) for s in p["segs"]])
    elif k == "prompt":
        o.update(resp=p["resp"])
    elif k == "keepalive":
        o.update(progress=p["progress"])
    elif k == "filedata":
        o.update(offset=p["offset"], data=file_data_of(p).hex(), meta=None if p.get("meta") is None else {"state": p["meta"]["state"], "data": p["meta"]["data"]},
                 has_meta=p.get("meta") is not None)
    return o


def ref_pdu(p) -> bytes:
    if p["kind"] == "filedata":
        return R.pdu(p, file_data_of(p))
    return R.pdu(p)


def pdu_nontrivial(p) -> bool:
    c = p["conf"]
    if conf_nontrivial(c):
        return True
    k = p["kind"]
    if k == "eof":
        return p["cc"] != 0 or p["size"] > 255 or p["fault"] is not None
    if k == "finished":
        return p["cc"] != 0 or bool(p["responses"]) or p["fault"] is not None
    if k == "ack":
        return p["cc"] != 0 or p["status"] != 0
    if k == "metadata":
        return p["size"] > 255 or bool(p["options"]) or p["cktype"] != 0
    if k == "nak":
        return bool(p["segs"]) or p["start"] > 255 or p["end"] > 255
    if k == "keepalive":
        return p["progress"] > 255
    if k == "filedata":
        return p["offset"] > 255 or p.get("meta") is not None or p["data"] == ""
    return k == "prompt" and p["resp"] == 1


def pdu_classes(p):
    out = [p["kind"]] + conf_classes(p["conf"])
    k = p["kind"]
    has_tlv = (k == "eof" and p["fault"] is not None) or (k == "finished" and (p["responses"] or p["fault"] is not None)) or (k == "metadata" and p["options"])
    if has_tlv:
        out.append("tlv present")
        if p["conf"]["crc"]:
            out.append("crc+tlv")
    if k == "nak" and p["segs"]:
        out.append("segment requests")
    items = p.get("responses") if k == "finished" else (p.get("options") if k == "metadata" else (p.get("segs") if k == "nak" else None))
    if items and len(items) >= 2 and any(items[i] == items[j] for i in range(len(items)) for j in range(i + 1, len(items))):
        out.append("repeated list element")
    if items and len(items) >= 4:
        out.append(">= 4 list elements")
    if k == "filedata":
        if p["data"] == "":
            out.append("empty file data")
        if p.get("meta") is not None:
            out.append("segment metadata")
    return out


# ---- short call histories around one PDU (aliasing / shared-state detectors) ---------------------------------


def other_conf(c):
    """A header configuration that differs from ``c`` in every flag, both widths and all values."""
    nxt = {1: 2, 2: 4, 4: 8, 8: 1}
    idw, seqw = nxt[c["idw"]], nxt[c["seqw"]]
    return {"crc": 1 - c["crc"], "large": 1 - c["large"], "mode": 1 - c["mode"], "dir": 1 - c["dir"], "segctrl": c["segctrl"], "idw": idw, "seqw": seqw,
            "src": (1 << (8 * idw)) - 2, "dst": 1, "seq": (1 << (8 * seqw)) - 1}


def other_pdu(p):
    """A different, valid PDU (other kind where possible, other header configuration) to decode in between."""
    oc = other_conf(p["conf"])
    if p["kind"] == "prompt":
        return {"kind": "keepalive", "conf": oc, "progress": 0x01020304}
    return {"kind": "prompt", "conf": oc, "resp": 1}


def P_bad(c):
    """A Keep Alive PDU whose progress does not fit the 32-bit field of a small-file configuration (packing it must fail)."""
    from spacepackets.cfdp import pdu as P

    return P.KeepAlivePdu(build_conf(dict(c, large=0, crc=1)), 1 << 40)


def pdu_histories(p, want: bytes, wo: dict, decode, tag="hist", decode_other=None):
    """The codec statement along short histories: the caller reuses buffers and configuration objects it owns, other PDUs are
    decoded in between - none of that may change what an existing PDU object reports or packs.  ``decode`` is the decoder
    under test (class ``unpack`` or the factory)."""
    from spacepackets.cfdp import defs as d
    from spacepackets.util import ByteFieldGenerator

    from .core import copies_equal, eq, pack_fresh, scribble

    devs = []
    kind = p["kind"]
    c = p["conf"]
    copies_equal(devs, f"{tag}.copy_of_constructed", build_pdu(p), lambda o: bytes(o.pack()), want)
    copies_equal(devs, f"{tag}.copy_of_decoded", decode(want), lambda o: obs_pdu(o, kind), wo)
    # equality does not depend on whether either side was ever packed; enumerated parameters may be given as plain integers
    never_packed = build_pdu(p)
    eq(devs, f"{tag}.eq_decoded_vs_never_packed", bool(decode(want) == never_packed) and bool(never_packed == decode(want)), True)
    xi = build_pdu(p, plain_ints=True)
    eq(devs, f"{tag}.plain_int_parameters.pack", bytes(xi.pack()), want)
    eq(devs, f"{tag}.plain_int_parameters.eq_decoded", bool(decode(want) == xi), True)
    # a pack of ANOTHER PDU was refused just before (a size that does not fit its 32-bit field): nothing of it may linger
    try:
        bad = P_bad(c)
        bad.pack()
    except Exception:  # noqa: BLE001 - the refusal itself is C06's over-width clause
        pass
    eq(devs, f"{tag}.pack_after_refused_pack_of_another_pdu", bytes(build_pdu(p).pack()), want)
    # caller goes on using the configuration object it passed in
    conf_obj = build_conf(c)
    x = build_pdu(p, conf_obj)
    pack_fresh(devs, f"{tag}.pack_returns_fresh_buffer", x.pack, want)
    conf_obj.crc_flag = d.CrcFlag(1 - c["crc"])
    conf_obj.file_flag = d.LargeFileFlag(1 - c["large"])
    conf_obj.trans_mode = d.TransmissionMode(1 - c["mode"])
    conf_obj.direction = d.Direction(1 - R.direction_of(p))
    conf_obj.transaction_seq_num = ByteFieldGenerator.from_int(c["seqw"], (c["seq"] + 1) % (1 << (8 * c["seqw"])))
    eq(devs, f"{tag}.pack_after_caller_changed_its_config", bytes(x.pack()), want)
    eq(devs, f"{tag}.packet_len_after_caller_changed_its_config", x.packet_len, len(want))
    # decoded out of a caller-owned buffer that is reused; another PDU with another configuration decoded in between
    buf = bytearray(want)
    y = decode(buf)
    scribble(buf)
    eq(devs, f"{tag}.decoded.fields_after_caller_reused_buffer", obs_pdu(y, kind), wo)
    q = other_pdu(p)
    z = (decode_other or pdu_class(q["kind"]).unpack)(ref_pdu(q))
    eq(devs, f"{tag}.decoded.other_pdu_fields", obs_pdu(z, q["kind"]), want_pdu_obs(q, ref_pdu(q)))
    eq(devs, f"{tag}.decoded.fields_after_another_pdu_was_decoded", obs_pdu(y, kind), wo)
    eq(devs, f"{tag}.decoded.repack_after_another_pdu_was_decoded", bytes(y.pack()), want)
    eq(devs, f"{tag}.constructed.pack_after_another_pdu_was_decoded", bytes(x.pack()), want)
    # the owner of a decoded PDU changes its id / sequence-number objects in place; the same octets decoded again give the packed values
    # again, also after str() / repr() of the objects involved
    y2 = decode(want)
    str(y2), repr(y2)
    hdr_conf = y2.pdu_header.pdu_conf
    hdr_conf.transaction_seq_num.value = (c["seq"] + 1) % (1 << (8 * c["seqw"]))
    hdr_conf.source_entity_id.value = (c["src"] + 1) % (1 << (8 * c["idw"]))
    hdr_conf.dest_entity_id.value = c["dst"] ^ 1
    eq(devs, f"{tag}.decoded_again_after_earlier_ids_were_changed_in_place", obs_pdu(decode(want), kind), wo)
    return devs
