"""atheris (libFuzzer) target for C09 / C10 - run as a subprocess by the engine:

    python -m vf.fuzz.target --prop C10 --out result.json --work dir --runs N --seed S [--seeded K]

Input layout: octet 0 selects the decoder entry point, octet 1 is a flag octet (bit 0: re-patch the
checksum over the declared extent; bits 1-7: index into the entry's finite list of decoder
configurations), the rest is the buffer handed to the decoder.  The oracle is inside the target;
violations never crash the process, they are bucketed by signature and the smallest witness per
bucket is written to ``--out`` (rewritten on every new bucket / smaller witness, because atheris
skips atexit handlers).
"""
from __future__ import annotations

import argparse
import hashlib
import json
import os
import sys
import time


def cfg_list(e):
    n = e.name
    if n == "Service1Tm.unpack":
        return [{"ts": t, "step": s, "err": r} for t in (7, 0, 4) for s, r in ((1, 1), (2, 2), (4, 1), (1, 8), (8, 4))]
    if n in ("PusTm.unpack", "PusTmSecondaryHeader.unpack", "Service17Tm.unpack"):
        return [{"ts": t} for t in (7, 0, 1, 4, 16)]
    if n == "PusTm.service_from_bytes":
        return [{"ba": False}, {"ba": True}]
    if n == "FailureNotice.unpack":
        return [{"err": w, "ndata": d} for w in (1, 2, 4, 8) for d in (None, 0, 4)]
    if n == "PacketFieldEnum.unpack":
        return [{"pfc": p} for p in (8, 16, 32, 64)]
    if n == "ByteFieldGenerator.from_bytes":
        return [{"w": w} for w in (1, 2, 4, 8)]
    if n == "parse_space_packets":
        return [{"ids": "auto", "one": True}, {"ids": "auto", "one": False}]
    if n == "TransferFrame.unpack":
        return [{"ft": ft, "iz": iz, "fecf": fe, "n": "auto", "pc": pc, "iz_off": 4 if iz is None else None, "fecf_off": 2 if fe is None else None}
                for ft in ("fixed", "variable") for pc in ("fixed", "variable") for iz in (None, 2) for fe in (None, 2, 4)]
    if n == "FileDirectivePduBase.parse_fss_field":
        return [{"large": lg, "idx": i} for lg in (0, 1) for i in (0, 1, 5)]
    if n == "TransferFrameDataField.unpack":
        return [{"ft": ft, "trunc": tr, "exact": ex} for ex in (None, 3, 12) for ft in ("fixed", "variable", None) for tr in (False, True)]
    return [{}]


def resolve_cfg(cfg, buf):
    if cfg.get("ids") == "auto":
        cfg = dict(cfg, ids=[(int.from_bytes(buf[:2], "big") & 0x1FFF) if len(buf) >= 2 else 0])
    if cfg.get("n") == "auto":
        cfg = dict(cfg, n=max(len(buf), 1))
    return cfg


def decode_input(data: bytes, names, D):
    if len(data) < 2:
        return None
    e = D.ENTRIES[names[data[0] % len(names)]]
    cfgs = cfg_list(e)
    buf = bytes(data[2:])
    cfg = resolve_cfg(cfgs[(data[1] >> 1) % len(cfgs)], buf)
    patch = bool(data[1] & 1) and e.crc is not None
    return e, cfg, buf, patch


def encode_input(names, e, cfg, buf: bytes, patch: bool) -> bytes:
    cfgs = cfg_list(e)
    idx = 0
    for i, c in enumerate(cfgs):
        if all(cfg.get(k) == v or v == "auto" for k, v in c.items()):
            idx = i
            break
    return bytes([names.index(e.name), (idx << 1) | int(patch)]) + buf


def main(argv=None):
    ap = argparse.ArgumentParser()
    ap.add_argument("--prop", required=True, choices=["C09", "C10"])
    ap.add_argument("--out", required=True)
    ap.add_argument("--work", required=True)
    ap.add_argument("--runs", type=int, default=100000)
    ap.add_argument("--seed", type=int, default=1)
    ap.add_argument("--seeded", type=int, default=0, help="number of valid units per entry to put into the starting corpus (0 = empty corpus)")
    ap.add_argument("--max-len", type=int, default=256)
    a = ap.parse_args(argv)

    here = os.path.dirname(os.path.dirname(os.path.dirname(os.path.abspath(__file__))))
    sys.path.insert(0, os.path.join(here, ".deps"))
    from vf import deps

    deps.ensure()
    import atheris

    with atheris.instrument_imports(include=["spacepackets"]):
        import spacepackets  # noqa: F401
        import spacepackets.ccsds.spacepacket  # noqa: F401
        import spacepackets.ccsds.time  # noqa: F401
        import spacepackets.cfdp.pdu.helper  # noqa: F401
        import spacepackets.cfdp.tlv  # noqa: F401
        import spacepackets.ecss.pus_1_verification  # noqa: F401
        import spacepackets.ecss.pus_17_test  # noqa: F401
        import spacepackets.ecss.tc  # noqa: F401
        import spacepackets.ecss.tm  # noqa: F401
        import spacepackets.uslp.frame  # noqa: F401
        import spacepackets.util  # noqa: F401
    from vf import decoders as D
    from vf.core import exc_sub
    from vf.props import c09, c10

    names = sorted(D.ENTRIES)
    if a.prop == "C09":
        names = [n for n in names if D.ENTRIES[n].obs is not None and D.ENTRIES[n].replen is not None]
    from spacepackets.cfdp import conf as cfdp_conf

    conf_before = repr(cfdp_conf.get_entity_ids()) if hasattr(cfdp_conf, "get_entity_ids") else ""

    os.makedirs(a.work, exist_ok=True)
    corpus = os.path.join(a.work, "corpus")
    os.makedirs(corpus, exist_ok=True)
    if a.seeded:
        from hypothesis import HealthCheck, Phase, given, seed, settings

        def seed_entry(e):
            k = [0]

            @settings(max_examples=a.seeded, database=None, deadline=None, phases=[Phase.generate], suppress_health_check=list(HealthCheck))
            @seed(a.seed)
            @given(e.valid())
            def put(v):
                raw = bytes.fromhex(v["raw"])[: a.max_len - 2]
                data = encode_input(names, e, v["cfg"], raw, False)
                with open(os.path.join(corpus, f"seed-{names.index(e.name):02d}-{k[0]:03d}"), "wb") as f:
                    f.write(data)
                k[0] += 1

            put()

        for n in names:
            seed_entry(D.ENTRIES[n])

    state = {"execs": 0, "accepted": 0, "refused": 0, "in_domain": 0, "buckets": {}, "digests": set(), "per_entry": {}, "t0": time.time(), "samples": []}

    def flush():
        out = {
            "prop": a.prop, "executions": state["execs"], "accepted": state["accepted"], "refused": state["refused"], "in_domain": state["in_domain"],
            "distinct_nontrivial": len(state["digests"]), "per_entry": state["per_entry"], "buckets": state["buckets"], "samples": state["samples"],
            "seeded": a.seeded, "seed": a.seed, "runs": a.runs, "wall": round(time.time() - state["t0"], 1),
            "corpus_files": len(os.listdir(corpus)),
        }
        tmp = a.out + ".tmp"
        with open(tmp, "w") as f:
            json.dump(out, f)
        os.replace(tmp, a.out)

    def record(sig, case, detail):
        b = state["buckets"].get(sig)
        size = len(case["buf"])
        if b is None or size < len(b["case"]["buf"]):
            cnt = (b["count"] if b else 0) + 1
            state["buckets"][sig] = {"case": case, "detail": detail[:300], "count": cnt}
            flush()
        else:
            b["count"] += 1

    def one(data: bytes):
        d = decode_input(data, names, D)
        if d is None:
            return
        e, cfg, buf, patch = d
        state["execs"] += 1
        pe = state["per_entry"]
        pe[e.name] = pe.get(e.name, 0) + 1
        case = {"entry": e.name, "cfg": cfg, "buf": buf.hex(), "patch": patch}
        if a.prop == "C10":
            devs, _ = c10.check_raw(case)
            nontrivial = len(buf) >= 4
        else:
            devs, n = c09.check_accepted(case)
            nontrivial = n > 0
            state["in_domain"] += int(n > 0)
        if nontrivial and len(state["digests"]) < 2_000_000:
            state["digests"].add(hashlib.blake2b(bytes(data), digest_size=8).digest())
            if len(state["samples"]) < 4 and len(buf) >= 8:
                state["samples"].append(case)
        for dv in devs:
            record(dv.sub, case, dv.detail)
        if state["execs"] % 1000 == 0:  # atheris leaves through os._exit: the counts in --out are exact to within 1000 executions
            if conf_before and repr(cfdp_conf.get_entity_ids()) != conf_before:
                record("harness:global_state_changed", case, "spacepackets.cfdp.conf entity ids changed during fuzzing")
            flush()

    def test_one_input(data: bytes):
        try:
            one(bytes(data))
        except SystemExit:
            raise
        except BaseException as ex:  # noqa: BLE001 - a harness bug must not look like a finding: record separately and keep going
            state["buckets"].setdefault("harness:exception", {"case": {"entry": "?", "cfg": {}, "buf": bytes(data).hex(), "patch": False}, "detail": repr(ex)[:300], "count": 0})["count"] += 1
            flush()

    flush()
    argv2 = [sys.argv[0], corpus, f"-runs={a.runs}", f"-seed={a.seed}", f"-max_len={a.max_len}", "-print_final_stats=0", "-verbosity=0", "-close_fd_mask=3"]
    atheris.Setup(argv2, test_one_input)
    try:
        atheris.Fuzz()
    finally:
        flush()


if __name__ == "__main__":
    main()
