"""Pins the reference codecs to vectors that were not produced by them.  Failure = exit 2."""
from __future__ import annotations

from ..core import HarnessError
from . import crc

_done = False


def _req(cond, what):
    if not cond:
        raise HarnessError(f"reference self-test failed: {what}")


def run():
    global _done
    if _done:
        return
    _req(crc.crc16_ccitt_false(b"123456789") == 0x29B1, "CRC check value 0x29B1")
    _req(crc.crc16_fast(b"123456789") == 0x29B1, "CRC table check value")
    _req(crc.crc16_ccitt_false(b"") == 0xFFFF, "CRC of empty")
    for msg in (b"\x00", b"\xff" * 7, bytes(range(256))):
        _req(crc.crc16_ccitt_false(msg) == crc.crc16_fast(msg), "CRC table == bit-serial")
        _req(crc.crc16_fast(msg + crc.crc_bytes(msg)) == 0, "CRC residue")
    try:
        from . import vectors
    except ImportError:
        vectors = None
    if vectors is not None:
        vectors.run(_req)
    _done = True
