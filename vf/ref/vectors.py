"""Known-answer vectors for the reference codecs, taken from the repository's docs / docstrings /
test assertions (i.e. not produced by the reference itself)."""


def run(req):
    from . import ccsds, pus

    # PusTc docstring: ping TC[17,1], apid 1, seq 22
    tc = pus.pus_tc(apid=0x01, seq=22, service=17, subservice=1, source_id=0, ack=0xF, app_data=b"")
    req(tc.hex(",") == "18,01,c0,16,00,06,2f,11,01,00,00,ab,62", "ping TC vector")
    # PusTm docstring: ping TM[17,2] apid 1 seq 5, CDS short (7 octets) stamp; first 13 octets
    tm = pus.pus_tm(apid=0x01, seq=5, service=17, subservice=2, msg_counter=0, dest_id=0, time_ref=0, timestamp=bytes(7), source_data=b"")
    req(tm[:13].hex(",") == "08,01,c0,05,00,0f,20,11,02,00,00,00,00", "ping TM vector")
    # RequestId docstring
    req(pus.request_id_bytes(0, 1, 0, 0x22, 3, 17).hex(",") == "10,22,c0,11", "request id vector")
    # SpacePacketHeader docstring: TC apid 0x42 data_len 12 -> packet_len 19
    p = ccsds.parse_sp_header(ccsds.sp_header(0, 1, 0, 0x42, 3, 0, 12))
    req(p["total_len"] == 19 and p["apid"] == 0x42 and p["ptype"] == 1, "space packet header vector")
    for name in ("cds", "cfdp", "uslp"):
        try:
            mod = __import__(f"vf.ref.{name}_vectors", fromlist=["run"])
        except ImportError:
            continue
        mod.run(req)
