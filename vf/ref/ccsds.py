"""CCSDS 133.0-B-2 space packet primary header, written from the blue book (4.1.3).

Octets 0-1: version (3) | type (1) | sec hdr flag (1) | APID (11)
Octets 2-3: sequence flags (2) | sequence count (14)
Octets 4-5: packet data length = (octets in packet data field) - 1
"""


def sp_header(ver: int, ptype: int, shf: int, apid: int, flags: int, count: int, dlen: int) -> bytes:
    assert 0 <= ver < 8 and ptype in (0, 1) and shf in (0, 1) and 0 <= apid < 2048
    assert 0 <= flags < 4 and 0 <= count < 16384 and 0 <= dlen < 65536
    w0 = ver * 8192 + ptype * 4096 + shf * 2048 + apid
    w1 = flags * 16384 + count
    return w0.to_bytes(2, "big") + w1.to_bytes(2, "big") + dlen.to_bytes(2, "big")


def parse_sp_header(b: bytes) -> dict:
    assert len(b) >= 6
    w0 = int.from_bytes(b[0:2], "big")
    w1 = int.from_bytes(b[2:4], "big")
    w2 = int.from_bytes(b[4:6], "big")
    return {
        "ver": w0 // 8192,
        "ptype": (w0 // 4096) % 2,
        "shf": (w0 // 2048) % 2,
        "apid": w0 % 2048,
        "flags": w1 // 16384,
        "count": w1 % 16384,
        "dlen": w2,
        "packet_id": w0 % 8192,
        "psc": w1,
        "total_len": w2 + 7,
    }
