"""ECSS-E-ST-70-41C (PUS-C) telecommand and telemetry packets, written from the standard
(7.4.3 TC secondary header, 7.4.4 TM secondary header) on top of the CCSDS primary header."""
from . import ccsds
from .crc import crc_bytes

TC_SEC_LEN = 5
TM_SEC_MIN_LEN = 7


def pus_tc(apid, seq, service, subservice, source_id, ack, app_data: bytes, ver=0) -> bytes:
    assert 0 <= ack < 16 and 0 <= service < 256 and 0 <= subservice < 256 and 0 <= source_id < 65536
    total = 6 + TC_SEC_LEN + len(app_data) + 2
    hdr = ccsds.sp_header(ver, 1, 1, apid, 3, seq, total - 7)
    sec = bytes([2 * 16 + ack, service, subservice]) + source_id.to_bytes(2, "big")
    body = hdr + sec + app_data
    return body + crc_bytes(body)


def parse_pus_tc(b: bytes) -> dict:
    p = ccsds.parse_sp_header(b)
    n = p["total_len"]
    return {
        "sp": p,
        "pus_version": b[6] // 16,
        "ack": b[6] % 16,
        "service": b[7],
        "subservice": b[8],
        "source_id": int.from_bytes(b[9:11], "big"),
        "app_data": b[11 : n - 2],
        "crc": b[n - 2 : n],
    }


def pus_tm(apid, seq, service, subservice, msg_counter, dest_id, time_ref, timestamp: bytes, source_data: bytes, ver=0) -> bytes:
    assert 0 <= time_ref < 16 and 0 <= msg_counter < 65536 and 0 <= dest_id < 65536
    total = 6 + TM_SEC_MIN_LEN + len(timestamp) + len(source_data) + 2
    hdr = ccsds.sp_header(ver, 0, 1, apid, 3, seq, total - 7)
    sec = bytes([2 * 16 + time_ref, service, subservice]) + msg_counter.to_bytes(2, "big") + dest_id.to_bytes(2, "big") + timestamp
    body = hdr + sec + source_data
    return body + crc_bytes(body)


def request_id_bytes(ver, ptype, shf, apid, flags, count) -> bytes:
    return ccsds.sp_header(ver, ptype, shf, apid, flags, count, 0)[:4]
