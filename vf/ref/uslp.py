"""CCSDS 732.1-B-2 (USLP) transfer frame primary header / frame layout, written from the blue book
(4.1.2 primary header, 4.1.4 transfer frame data field)."""

TFVN = 0b1100


def primary_header(scid, src_dest, vcid, map_id, frame_len, bypass, prot_cmd, ocf_flag, vcf_len, vcf_count) -> bytes:
    assert 0 <= scid < 65536 and 0 <= vcid < 64 and 0 <= map_id < 16 and 0 <= frame_len < 65536 and 0 <= vcf_len < 8
    bits = TFVN
    bits = (bits << 16) | scid
    bits = (bits << 1) | src_dest
    bits = (bits << 6) | vcid
    bits = (bits << 4) | map_id
    bits = (bits << 1) | 0  # end of frame primary header flag
    bits = (bits << 16) | frame_len
    bits = (bits << 1) | bypass
    bits = (bits << 1) | prot_cmd
    bits = (bits << 2) | 0  # spare
    bits = (bits << 1) | ocf_flag
    bits = (bits << 3) | vcf_len
    out = bits.to_bytes(7, "big")
    if vcf_len:
        out += vcf_count.to_bytes(vcf_len, "big")
    return out


def truncated_header(scid, src_dest, vcid, map_id) -> bytes:
    bits = TFVN
    bits = (bits << 16) | scid
    bits = (bits << 1) | src_dest
    bits = (bits << 6) | vcid
    bits = (bits << 4) | map_id
    bits = (bits << 1) | 1
    return bits.to_bytes(4, "big")


def parse_primary_header(b: bytes) -> dict:
    v = int.from_bytes(b[:7], "big")
    vcf_len = v & 7
    return {
        "tfvn": v >> 52, "scid": (v >> 36) & 0xFFFF, "src_dest": (v >> 35) & 1, "vcid": (v >> 29) & 0x3F, "map_id": (v >> 25) & 0xF, "end_flag": (v >> 24) & 1,
        "frame_len": (v >> 8) & 0xFFFF, "bypass": (v >> 7) & 1, "prot_cmd": (v >> 6) & 1, "ocf_flag": (v >> 3) & 1, "vcf_len": vcf_len,
        "vcf_count": int.from_bytes(b[7 : 7 + vcf_len], "big"), "len": 7 + vcf_len,
    }


def tfdf_header(rule, upid, pointer=None) -> bytes:
    assert 0 <= rule < 8 and 0 <= upid < 32
    b = bytes([(rule << 5) | upid])
    if pointer is not None:
        b += pointer.to_bytes(2, "big")
    return b


def frame(header: bytes, insert_zone: bytes, rule, upid, pointer, tfdz: bytes, ocf: bytes, fecf: bytes) -> bytes:
    return header + (insert_zone or b"") + tfdf_header(rule, upid, pointer) + tfdz + (ocf or b"") + (fecf or b"")
