"""CFDP known answers: octet vectors asserted by the repository's own tests (tests/cfdp/...)."""


def run(req):
    from . import cfdp as C

    conf = {"crc": 0, "large": 0, "mode": 0, "dir": 0, "segctrl": 0, "idw": 1, "seqw": 1, "src": 0, "dst": 0, "seq": 0}
    # test_finished_pdu.test_basic: Finished, NO_ERROR, complete, status unreported
    p = {"kind": "finished", "conf": conf, "cc": 0, "delivery": 0, "status": 3, "responses": [], "fault": None}
    req(C.pdu(p) == bytes([0x28, 0x00, 0x02, 0x00, 0x00, 0x00, 0x00, 0x05, 0x03]), "Finished basic vector")
    # test_with_fs_response: filestore response REMOVE_DIR_SUCCESS "test.txt"
    r1 = {"t": "fsresp", "action": 6, "status": 0, "n1": "test.txt", "n2": "", "msg": ""}
    want = bytes([0x01, 11, 0x60, 0x08, 0x74, 0x65, 0x73, 0x74, 0x2E, 0x74, 0x78, 0x74, 0x00])
    req(C.tlv_bytes(r1) == want, "filestore response vector")
    p = {"kind": "finished", "conf": conf, "cc": 4, "delivery": 1, "status": 0, "responses": [r1], "fault": None}
    req(C.pdu(p) == bytes([0x28, 0x00, 0x0F, 0x00, 0x00, 0x00, 0x00, 0x05, 0x44]) + want, "Finished with response vector")
    # test_finished_pdu: append not performed, two names
    r2 = {"t": "fsresp", "action": 3, "status": 15, "n1": "test.txt", "n2": "test2.txt", "msg": ""}
    req(C.tlv_bytes(r2)[:3] == bytes([0x01, 0x15, 0x3F]), "filestore response 2 vector")
    # test_eof_pdu: default EOF
    p = {"kind": "eof", "conf": conf, "cc": 0, "checksum": "00000000", "size": 0, "fault": None}
    req(C.pdu(p) == bytes([0x20, 0x00, 0x0A, 0x00, 0x00, 0x00, 0x00, 0x04, 0, 0, 0, 0, 0, 0, 0, 0, 0]), "EOF vector")
    # test_prompt_pdu
    p = {"kind": "prompt", "conf": conf, "resp": 1}
    req(C.pdu(p) == bytes([0x20, 0x00, 0x02, 0x00, 0x00, 0x00, 0x00, 0x09, 0x80]), "Prompt vector")
    # test_ack_pdu packet 1: 4-octet ids, CRC, unacknowledged, ACK of EOF
    conf2 = {"crc": 1, "large": 0, "mode": 1, "dir": 0, "segctrl": 0, "idw": 4, "seqw": 4, "src": 0x10000102, "dst": 0x30000103, "seq": 0x50001001}
    p = {"kind": "ack", "conf": conf2, "acked": 4, "cc": 1, "status": 1}
    raw = C.pdu(p)
    req(len(raw) == 21 and raw[:12] == bytes([0x2E, 0x00, 0x05, 0x33, 0x10, 0x00, 0x01, 0x02, 0x50, 0x00, 0x10, 0x01]), "ACK header vector")
    req(raw[12:19] == bytes([0x30, 0x00, 0x01, 0x03, 0x06, 0x40, 0x11]), "ACK body vector")
    h = C.parse_header(raw)
    req(h["idw"] == 4 and h["seqw"] == 4 and h["src"] == 0x10000102 and h["dlen"] == 5 and h["crc"] == 1 and h["dir"] == 1, "header parse vector")
