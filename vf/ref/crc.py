"""CRC-16/CCITT-FALSE, bit-serial, written from the definition (poly 0x1021, init 0xFFFF,
no reflection, no final xor).  Independent of crcmod and of the library under test."""


def crc16_ccitt_false(data: bytes, init: int = 0xFFFF) -> int:
    reg = init
    for octet in data:
        reg ^= octet << 8
        for _ in range(8):
            if reg & 0x8000:
                reg = ((reg << 1) ^ 0x1021) & 0xFFFF
            else:
                reg = (reg << 1) & 0xFFFF
    return reg


_TABLE = []
for _i in range(256):
    _r = _i << 8
    for _ in range(8):
        _r = ((_r << 1) ^ 0x1021) & 0xFFFF if _r & 0x8000 else (_r << 1) & 0xFFFF
    _TABLE.append(_r)


def crc16_fast(data: bytes, init: int = 0xFFFF) -> int:
    """Table-driven variant of the same definition (self-tested against the bit-serial one)."""
    reg = init
    for octet in data:
        reg = ((reg << 8) & 0xFFFF) ^ _TABLE[(reg >> 8) ^ octet]
    return reg


def crc_bytes(data: bytes) -> bytes:
    return crc16_fast(data).to_bytes(2, "big")
