"""CRC-16/CCITT-FALSE, bit-serial, written from the definition (poly 0x1021, init 0xFFFF,
no reflection, no final xor).  Independent of crcmod and of the library under test."""


def crc16_ccitt_false(data: bytes, init: int = 0xFFFF) -> int:
    reg = init
    for octet in data:
        reg ^= octet << 8
        for _ in range(8):
            if reg & 0x8000:
                reg = ((reg << 1) ^ 0x1021) & 0xFFFF
            else:
                reg = (reg << 1) & 0xFFFF
    return reg


_TABLE = []
for _i in range(256):
    _r = _i << 8
    for _ in range(8):
        _r = ((_r << 1) ^ 0x1021) & 0xFFFF if _r & 0x8000 else (_r << 1) & 0xFFFF
    _TABLE.append(_r)


def crc16_fast(data: bytes, init: int = 0xFFFF) -> int:
    """Table-driven variant of the same definition (self-tested against the bit-serial one)."""
    reg = init
    for octet in data:
        reg = ((reg << 8) & 0xFFFF) ^ _TABLE[(reg >> 8) ^ octet]
    return reg


def crc_bytes(data: bytes) -> bytes:
    return crc16_fast(data).to_bytes(2, "big")


def solve_two_octets(msg: bytes, pos: int, target: int) -> bytes:
    """Return ``msg`` with the two octets at ``pos`` chosen so that crc16(msg) == target.  CRC-16 is affine in the message
    bits, and the map from a 16-bit field at a fixed position to the CRC is a bijection, so the 16 x 16 system over GF(2) is
    solved by elimination."""
    base = bytearray(msg)
    base[pos:pos + 2] = b"\x00\x00"
    c0 = crc16_fast(bytes(base))
    cols = []
    for bit in range(16):
        m = bytearray(base)
        v = 1 << bit
        m[pos] = v >> 8
        m[pos + 1] = v & 0xFF
        cols.append(crc16_fast(bytes(m)) ^ c0)
    want = target ^ c0
    # gaussian elimination: find x (16 bits) with XOR of cols[i] for set bits i == want
    rows = [(cols[i], 1 << i) for i in range(16)]
    x = 0
    for b in range(15, -1, -1):
        piv = next((r for r in rows if (r[0] >> b) & 1), None)
        if piv is None:
            continue
        rows = [r if r is piv or not ((r[0] >> b) & 1) else (r[0] ^ piv[0], r[1] ^ piv[1]) for r in rows]
        rows.remove(piv)
        if (want >> b) & 1:
            want ^= piv[0]
            x ^= piv[1]
    if want:
        raise ValueError("no solution")
    base[pos] = x >> 8
    base[pos + 1] = x & 0xFF
    return bytes(base)
