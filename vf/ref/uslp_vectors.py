"""USLP known answers: the octets asserted in tests/test_uslp.py."""


def run(req):
    from . import uslp as U

    h = U.primary_header(0xFFFE, 0, 0b110111, 0b0011, 0xFFFD, 1, 1, 1, 0, 0)
    req(len(h) == 7 and h[0] == 0xCF and h[1] == 0xFF and h[2] == (0b1110 << 4) | 0b110 and h[3] == (0b111 << 5) | (0b0011 << 1), "USLP header octets 0-3")
    req(h[4] == 0xFF and h[5] == 0xFD and h[6] == 0b11001000, "USLP header octets 4-6")
    h7 = U.primary_header(0xFFFE, 0, 0b110111, 0b0011, 0xFFFD, 1, 1, 1, 7, 0xAFFECAFEBABEAF)
    req(h7[6] & 7 == 7 and h7[7:] == bytes([0xAF, 0xFE, 0xCA, 0xFE, 0xBA, 0xBE, 0xAF]), "USLP vcf count 7")
    t = U.truncated_header(0b0001000100010001, 1, 0b101101, 0b1101)
    req(t == bytes([0xC1, 0x11, 0x1D, (0b101 << 5) | (0b1101 << 1) | 1]), "USLP truncated header")
    # test_frame: scid 0x10, fixed frame, rule 001, IDLE, pointer 0xAFFE, empty TFDZ, frame length field 9
    hdr = U.primary_header(0x10, 0, 0b110111, 0b0011, 9, 0, 0, 0, 0, 0)
    f = U.frame(hdr, b"", 1, 0b11111, 0xAFFE, b"", b"", b"")
    req(len(f) == 10 and f[4:6] == b"\x00\x09" and f[7:] == bytes([0x3F, 0xAF, 0xFE]), "USLP frame vector")
    p = U.parse_primary_header(h7)
    req(p["scid"] == 0xFFFE and p["vcid"] == 0b110111 and p["map_id"] == 3 and p["vcf_count"] == 0xAFFECAFEBABEAF and p["ocf_flag"] == 1 and p["len"] == 14, "USLP header parse")
