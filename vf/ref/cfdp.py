"""CCSDS 727.0-B-5 (CFDP) reference encoders/parsers, written from the blue book (section 5).

Works on plain data only; no import from the library under test.

conf (plain dict): crc, large, mode, dir, segctrl (0/1), idw, seqw (1,2,4,8), src, dst, seq (ints)
"""
from __future__ import annotations

from .crc import crc_bytes

# directive codes (table 5-4)
EOF, FINISHED, ACK, METADATA, NAK, PROMPT, KEEP_ALIVE = 0x04, 0x05, 0x06, 0x07, 0x08, 0x09, 0x0C
# TLV types (table 5-? / 5.4)
T_FS_REQ, T_FS_RESP, T_MSG, T_FAULT, T_FLOW, T_ENTITY = 0x00, 0x01, 0x02, 0x04, 0x05, 0x06
SECOND_NAME_ACTIONS = (2, 3, 4)  # rename, append, replace


def header_len(conf) -> int:
    return 4 + 2 * conf["idw"] + conf["seqw"]


def header(conf, pdu_type: int, direction: int, seg_meta: int, dlen: int, segctrl=None) -> bytes:
    """Fixed PDU header (5.1): version 001 | type | direction | mode | crc | large ; length(16);
    segctrl | len(id)-1 (3) | seg metadata flag | len(seq)-1 (3) ; source id ; seq num ; dest id."""
    assert 0 <= dlen <= 0xFFFF
    segctrl = conf["segctrl"] if segctrl is None else segctrl
    o0 = (1 << 5) | (pdu_type << 4) | (direction << 3) | (conf["mode"] << 2) | (conf["crc"] << 1) | conf["large"]
    o3 = (segctrl << 7) | ((conf["idw"] - 1) << 4) | (seg_meta << 3) | (conf["seqw"] - 1)
    return (
        bytes([o0]) + dlen.to_bytes(2, "big") + bytes([o3])
        + conf["src"].to_bytes(conf["idw"], "big") + conf["seq"].to_bytes(conf["seqw"], "big") + conf["dst"].to_bytes(conf["idw"], "big")
    )


def parse_header(b: bytes) -> dict:
    o0, o3 = b[0], b[3]
    idw = ((o3 >> 4) & 7) + 1
    seqw = (o3 & 7) + 1
    i = 4
    src = int.from_bytes(b[i : i + idw], "big"); i += idw
    seq = int.from_bytes(b[i : i + seqw], "big"); i += seqw
    dst = int.from_bytes(b[i : i + idw], "big"); i += idw
    return {
        "version": o0 >> 5, "pdu_type": (o0 >> 4) & 1, "dir": (o0 >> 3) & 1, "mode": (o0 >> 2) & 1, "crc": (o0 >> 1) & 1, "large": o0 & 1,
        "dlen": int.from_bytes(b[1:3], "big"), "segctrl": o3 >> 7, "idw": idw, "seg_meta": (o3 >> 3) & 1, "seqw": seqw,
        "src": src, "seq": seq, "dst": dst, "header_len": i,
    }


def fss(conf, v: int) -> bytes:
    return v.to_bytes(8 if conf["large"] else 4, "big")


def lv(value: bytes) -> bytes:
    assert len(value) <= 255
    return bytes([len(value)]) + value


def tlv(t: int, value: bytes) -> bytes:
    assert len(value) <= 255
    return bytes([t, len(value)]) + value


# ---- concrete TLVs (5.4) ----------------------------------------------------------------------


def tlv_value(d: dict) -> tuple:
    """(type, value octets) of a plain-data TLV description."""
    t = d["t"]
    if t == "entity":
        return T_ENTITY, bytes.fromhex(d["id"])
    if t == "flow":
        return T_FLOW, bytes.fromhex(d["v"])
    if t == "msg":
        return T_MSG, bytes.fromhex(d["v"])
    if t == "fault":
        return T_FAULT, bytes([(d["cc"] << 4) | d["handler"]])
    if t == "fsreq":
        v = bytes([d["action"] << 4]) + lv(d["n1"].encode("utf-8"))
        if d["action"] in SECOND_NAME_ACTIONS:
            v += lv(d["n2"].encode("utf-8"))
        return T_FS_REQ, v
    if t == "fsresp":
        v = bytes([(d["action"] << 4) | d["status"]]) + lv(d["n1"].encode("utf-8"))
        if d["action"] in SECOND_NAME_ACTIONS:
            v += lv(d["n2"].encode("utf-8"))
        v += lv(bytes.fromhex(d["msg"]))
        return T_FS_RESP, v
    if t == "raw":
        return d["type"], bytes.fromhex(d["v"])
    raise ValueError(t)


def tlv_bytes(d: dict) -> bytes:
    t, v = tlv_value(d)
    return tlv(t, v)


# ---- PDUs -------------------------------------------------------------------------------------

DIRECTION = {"eof": 0, "metadata": 0, "prompt": 0, "filedata": 0, "finished": 1, "nak": 1, "keepalive": 1}


def direction_of(p) -> int:
    if p["kind"] == "ack":
        return 1 if p["acked"] == EOF else 0  # ACK(EOF) travels to the sender, ACK(Finished) to the receiver
    return DIRECTION[p["kind"]]


def directive_code(p):
    return {"eof": EOF, "finished": FINISHED, "ack": ACK, "metadata": METADATA, "nak": NAK, "prompt": PROMPT, "keepalive": KEEP_ALIVE}.get(p["kind"])


def directive_params(p) -> bytes:
    conf = p["conf"]
    k = p["kind"]
    if k == "eof":
        b = bytes([p["cc"] << 4]) + bytes.fromhex(p["checksum"]) + fss(conf, p["size"])
        if p.get("fault") is not None:
            b += tlv(T_ENTITY, bytes.fromhex(p["fault"]))
        return b
    if k == "finished":
        b = bytes([(p["cc"] << 4) | (p["delivery"] << 2) | p["status"]])
        for r in p.get("responses") or []:
            b += tlv_bytes(r)
        if p.get("fault") is not None:
            b += tlv(T_ENTITY, bytes.fromhex(p["fault"]))
        return b
    if k == "ack":
        subtype = 1 if p["acked"] == FINISHED else 0
        return bytes([(p["acked"] << 4) | subtype, (p["cc"] << 4) | p["status"]])
    if k == "metadata":
        b = bytes([(int(p["closure"]) << 6) | p["cktype"]]) + fss(conf, p["size"])
        b += lv((p["src_name"] or "").encode("utf-8")) + lv((p["dst_name"] or "").encode("utf-8"))
        for o in p.get("options") or []:
            b += tlv_bytes(o)
        return b
    if k == "nak":
        b = fss(conf, p["start"]) + fss(conf, p["end"])
        for a, e in p["segs"]:
            b += fss(conf, a) + fss(conf, e)
        return b
    if k == "prompt":
        return bytes([p["resp"] << 7])
    if k == "keepalive":
        return fss(conf, p["progress"])
    raise ValueError(k)


def filedata_field(p, data: bytes) -> bytes:
    b = b""
    if p.get("meta") is not None:
        md = bytes.fromhex(p["meta"]["data"])
        assert len(md) <= 63
        b += bytes([(p["meta"]["state"] << 6) | len(md)]) + md
    return b + fss(p["conf"], p["offset"]) + data


def pdu(p, data: bytes = None) -> bytes:
    """Complete PDU octets for a plain-data PDU description."""
    conf = p["conf"]
    if p["kind"] == "filedata":
        field = filedata_field(p, data if data is not None else bytes.fromhex(p["data"]))
        pdu_type, seg_meta, segctrl = 1, int(p.get("meta") is not None), conf["segctrl"]
    else:
        field = bytes([directive_code(p)]) + directive_params(p)
        pdu_type, seg_meta, segctrl = 0, 0, conf["segctrl"]
    dlen = len(field) + (2 if conf["crc"] else 0)
    body = header(conf, pdu_type, direction_of(p), seg_meta, dlen, segctrl) + field
    if conf["crc"]:
        body += crc_bytes(body)
    return body


# ---- reserved CFDP messages (6.1, 6.2) ----------------------------------------------------------

M_PUT_REQUEST, M_TRANSMISSION_MODE, M_PUT_RESPONSE, M_PUT_CANCEL, M_ORIG_ID, M_CLOSURE = 0x00, 0x04, 0x07, 0x09, 0x0A, 0x0B
M_LIST_REQ, M_LIST_RESP, M_LIST_OPTS = 0x10, 0x11, 0x15


def reserved_value(m: dict) -> tuple:
    """(message type, fields) of a plain-data reserved-message description."""
    k = m["k"]
    if k == "put_request":
        return M_PUT_REQUEST, lv(m["dest_id"].to_bytes(m["dest_w"], "big")) + lv(bytes.fromhex(m["src"])) + lv(bytes.fromhex(m["dst"]))
    if k == "put_response":
        return M_PUT_RESPONSE, bytes([(m["cc"] << 4) | (m["delivery"] << 2) | m["status"]])
    if k == "cancel":
        return M_PUT_CANCEL, b""
    if k == "closure":
        return M_CLOSURE, bytes([int(m["closure"])])
    if k == "mode":
        return M_TRANSMISSION_MODE, bytes([m["mode"]])
    if k == "orig_id":
        return M_ORIG_ID, bytes([((m["src_w"] - 1) << 4) | (m["seq_w"] - 1)]) + m["src"].to_bytes(m["src_w"], "big") + m["seq"].to_bytes(m["seq_w"], "big")
    if k == "list_req":
        return M_LIST_REQ, lv(bytes.fromhex(m["path"])) + lv(bytes.fromhex(m["file"]))
    if k == "list_resp":
        return M_LIST_RESP, bytes([int(m["ok"]) << 7]) + lv(bytes.fromhex(m["path"])) + lv(bytes.fromhex(m["file"]))
    if k == "list_opts":
        return M_LIST_OPTS, bytes([(int(m["recursive"]) << 1) | int(m["all"])])
    raise ValueError(k)


def reserved_tlv(m: dict) -> bytes:
    t, fields = reserved_value(m)
    return tlv(T_MSG, b"cfdp" + bytes([t]) + fields)
