"""Code points that the standards assign to *named* values, written down from the standards' tables
(CCSDS 133.0-B-2 4.1.3, CCSDS 727.0-B-5 section 5 and 6 with the SANA checksum-type registry it
refers to, ECSS-E-ST-70-41C 6.1 / 7.3 / 8.1, CCSDS 732.1-B-2 4.1), independent of the library.

The other reference modules work on integers; a library that gives a *name* the wrong integer (two
members exchanged when an enumeration is tidied up) or that does not know a code point of the
standard at all encodes / decodes self-consistently, so only a table of names shows it.

``STANDARD`` tables: (module, enumeration) -> {meaning in the standard: code point}.  The keys are the
library's member names for those meanings (that mapping is by meaning, e.g. "delete not allowed").
``complete=True`` means the standard assigns exactly these code points: the library must be able to
represent each of them (it may have additional helper members, listed under ``extra_ok``).

``PINNED`` tables are code points that were *not* written down from a standard with confidence
(member names that abbreviate registry entries); they are a snapshot of the pinned commit and only
detect a later change of an existing name.
"""

STANDARD = {
    # CCSDS 133.0-B-2, 4.1.3.3.2 / 4.1.3.4.2
    ("spacepackets.ccsds.spacepacket", "PacketType"): dict(values={"TM": 0, "TC": 1}, complete=True),
    ("spacepackets.ccsds.spacepacket", "SequenceFlags"): dict(values={"CONTINUATION_SEGMENT": 0, "FIRST_SEGMENT": 1, "LAST_SEGMENT": 2, "UNSEGMENTED": 3}, complete=True),
    # CCSDS 727.0-B-5, 5.1 (fixed header)
    ("spacepackets.cfdp.defs", "PduType"): dict(values={"FILE_DIRECTIVE": 0, "FILE_DATA": 1}, complete=True),
    ("spacepackets.cfdp.defs", "Direction"): dict(values={"TOWARDS_RECEIVER": 0, "TOWARDS_SENDER": 1}, complete=True),
    ("spacepackets.cfdp.defs", "TransmissionMode"): dict(values={"ACKNOWLEDGED": 0, "UNACKNOWLEDGED": 1}, complete=True),
    ("spacepackets.cfdp.defs", "CrcFlag"): dict(values={"NO_CRC": 0, "WITH_CRC": 1}, complete=True),
    ("spacepackets.cfdp.defs", "LargeFileFlag"): dict(values={"NORMAL": 0, "LARGE": 1}, complete=True),
    ("spacepackets.cfdp.defs", "SegmentMetadataFlag"): dict(values={"NOT_PRESENT": 0, "PRESENT": 1}, complete=True),
    ("spacepackets.cfdp.defs", "SegmentationControl"): dict(values={"NO_RECORD_BOUNDARIES_PRESERVATION": 0, "RECORD_BOUNDARIES_PRESERVATION": 1}, complete=True),
    # 5.2.1, table 5-4 (directive codes)
    ("spacepackets.cfdp.pdu.file_directive", "DirectiveType"): dict(
        values={"EOF_PDU": 0x04, "FINISHED_PDU": 0x05, "ACK_PDU": 0x06, "METADATA_PDU": 0x07, "NAK_PDU": 0x08, "PROMPT_PDU": 0x09, "KEEP_ALIVE_PDU": 0x0C}, complete=True, extra_ok={"NONE"}),
    # table 5-5 (condition codes); 1100 and 1101 are reserved
    ("spacepackets.cfdp.defs", "ConditionCode"): dict(
        values={"NO_ERROR": 0, "POSITIVE_ACK_LIMIT_REACHED": 1, "KEEP_ALIVE_LIMIT_REACHED": 2, "INVALID_TRANSMISSION_MODE": 3, "FILESTORE_REJECTION": 4, "FILE_CHECKSUM_FAILURE": 5,
                "FILE_SIZE_ERROR": 6, "NAK_LIMIT_REACHED": 7, "INACTIVITY_DETECTED": 8, "INVALID_FILE_STRUCTURE": 9, "CHECK_LIMIT_REACHED": 10, "UNSUPPORTED_CHECKSUM_TYPE": 11,
                "SUSPEND_REQUEST_RECEIVED": 14, "CANCEL_REQUEST_RECEIVED": 15},
        complete=True, extra_ok={"NO_CONDITION_FIELD"}),
    # 5.2.3 (Finished), 5.2.4 (ACK), 5.2.7 (Prompt)
    ("spacepackets.cfdp.defs", "DeliveryCode"): dict(values={"DATA_COMPLETE": 0, "DATA_INCOMPLETE": 1}, complete=True),
    ("spacepackets.cfdp.defs", "FileStatus"): dict(values={"DISCARDED_DELIBERATELY": 0, "DISCARDED_FILESTORE_REJECTION": 1, "FILE_RETAINED": 2, "FILE_STATUS_UNREPORTED": 3}, complete=True),
    ("spacepackets.cfdp.pdu.ack", "TransactionStatus"): dict(values={"UNDEFINED": 0, "ACTIVE": 1, "TERMINATED": 2, "UNRECOGNIZED": 3}, complete=True),
    ("spacepackets.cfdp.pdu.prompt", "ResponseRequired"): dict(values={"NAK": 0, "KEEP_ALIVE": 1}, complete=True),
    # 5.2.5 (Metadata): checksum type = SANA registry "CFDP Checksum Types"
    ("spacepackets.cfdp.defs", "ChecksumType"): dict(values={"MODULAR": 0, "CRC_32_PROXIMITY_1": 1, "CRC_32C": 2, "CRC_32": 3, "NULL_CHECKSUM": 15}, complete=True),
    # 5.3 (File Data): record continuation state
    ("spacepackets.cfdp.pdu.file_data", "RecordContinuationState"): dict(values={"NO_START_NO_END": 0, "START_WITHOUT_END": 1, "END_WITHOUT_START": 2, "START_AND_END": 3}, complete=True),
    # 5.4, table 5-3? (TLV types)
    ("spacepackets.cfdp.tlv.defs", "TlvType"): dict(values={"FILESTORE_REQUEST": 0x00, "FILESTORE_RESPONSE": 0x01, "MESSAGE_TO_USER": 0x02, "FAULT_HANDLER": 0x04, "FLOW_LABEL": 0x05, "ENTITY_ID": 0x06}, complete=True),
    # 5.4.1.2, table 5-16 (action codes)
    ("spacepackets.cfdp.tlv.defs", "FilestoreActionCode"): dict(
        values={"CREATE_FILE_SNM": 0, "DELETE_FILE_SNN": 1, "RENAME_FILE_SNP": 2, "APPEND_FILE_SNP": 3, "REPLACE_FILE_SNP": 4, "CREATE_DIR_SNN": 5, "REMOVE_DIR_SNN": 6, "DENY_FILE_SMM": 7, "DENY_DIR_SNN": 8},
        complete=True),
    # 5.4.3, table 5-19 (fault handler codes)
    ("spacepackets.cfdp.defs", "FaultHandlerCode"): dict(values={"NOTICE_OF_CANCELLATION": 1, "NOTICE_OF_SUSPENSION": 2, "IGNORE_ERROR": 3, "ABANDON_TRANSACTION": 4}, complete=True),
    # 6.2 / 6.3, tables 6-1 and 6-? (reserved CFDP message types)
    ("spacepackets.cfdp.tlv.defs", "ProxyMessageType"): dict(
        values={"PUT_REQUEST": 0x00, "MSG_TO_USER": 0x01, "FS_REQUEST": 0x02, "FAULT_HANDLER_OVERRIDE": 0x03, "TRANSMISSION_MODE": 0x04, "FLOW_LABEL": 0x05, "SEGMENTATION_CTRL": 0x06,
                "PUT_RESPONSE": 0x07, "FS_RESPONSE": 0x08, "PUT_CANCEL": 0x09, "CLOSURE_REQUEST": 0x0B},
        complete=False),
    ("spacepackets.cfdp.tlv.defs", "DirectoryOperationMessageType"): dict(values={"LISTING_REQUEST": 0x10, "LISTING_RESPONSE": 0x11, "CUSTOM_LISTING_PARAMETERS": 0x15}, complete=False),
    # ECSS-E-ST-70-41C: 6.1 (verification reports), 8.1 / 7.3 (parameter type codes), 6.17
    ("spacepackets.ecss.pus_1_verification", "Subservice"): dict(
        values={"TM_ACCEPTANCE_SUCCESS": 1, "TM_ACCEPTANCE_FAILURE": 2, "TM_START_SUCCESS": 3, "TM_START_FAILURE": 4, "TM_STEP_SUCCESS": 5, "TM_STEP_FAILURE": 6,
                "TM_COMPLETION_SUCCESS": 7, "TM_COMPLETION_FAILURE": 8},
        complete=False, extra_ok={"INVALID"}),
    ("spacepackets.ecss.pus_17_test", "Subservice"): dict(values={"TC_PING": 1, "TM_REPLY": 2}, complete=False),
    ("spacepackets.ecss.fields", "Ptc"): dict(
        values={"BOOLEAN": 1, "ENUMERATED": 2, "UNSIGNED": 3, "SIGNED": 4, "REAL": 5, "BIT_STRING": 6, "OCTET_STRING": 7, "CHARACTER_STRING": 8, "ABSOLUTE_TIME": 9, "RELATIVE_TIME": 10,
                "DEDUCED": 11, "PACKET": 12},
        complete=True),
    ("spacepackets.ecss.defs", "PusVersion"): dict(values={"PUS_A": 1, "PUS_C": 2}, complete=False, extra_ok={"ESA_PUS"}),
    # CCSDS 301.0-B-4 3.? (time code identification in the P-field)
    ("spacepackets.ccsds.time.common", "CcsdsTimeCodeId"): dict(values={"CUC_CCSDS_EPOCH": 1, "CUC_AGENCY_EPOCH": 2, "CDS": 4, "CCS": 5}, complete=False, extra_ok={"NONE"}),
    # CCSDS 732.1-B-2, 4.1.2 / 4.1.4.2.2 (construction rules)
    ("spacepackets.uslp.header", "SourceOrDestField"): dict(values={"SOURCE": 0, "DEST": 1}, complete=True),
    ("spacepackets.uslp.header", "BypassSequenceControlFlag"): dict(values={"SEQ_CTRLD_QOS": 0, "EXPEDITED_QOS": 1}, complete=True),
    ("spacepackets.uslp.header", "ProtocolCommandFlag"): dict(values={"USER_DATA": 0, "PROTOCOL_INFORMATION": 1}, complete=True),
    ("spacepackets.uslp.frame", "TfdzConstructionRules"): dict(
        values={"FpPacketSpanningMultipleFrames": 0, "FpFixedStartOfMapaSDU": 1, "FpContinuingPortionOfMapaSDU": 2, "VpOctetStream": 3, "VpStartingSegment": 4, "VpContinuingSegment": 5,
                "VpLastSegment": 6, "VpNoSegmentation": 7},
        complete=True),
}

# 727.0-B-5 table 5-18: the filestore response status codes that exist for each action code (4-bit status values)
FILESTORE_STATUS = {
    0: {0b0000: "successful", 0b0001: "create not allowed", 0b1111: "not performed"},
    1: {0b0000: "successful", 0b0001: "file does not exist", 0b0010: "delete not allowed", 0b1111: "not performed"},
    2: {0b0000: "successful", 0b0001: "old file name does not exist", 0b0010: "new file name already exists", 0b0011: "rename not allowed", 0b1111: "not performed"},
    3: {0b0000: "successful", 0b0001: "file name 1 does not exist", 0b0010: "file name 2 does not exist", 0b0011: "append not allowed", 0b1111: "not performed"},
    4: {0b0000: "successful", 0b0001: "file name 1 does not exist", 0b0010: "file name 2 does not exist", 0b0011: "replace not allowed", 0b1111: "not performed"},
    5: {0b0000: "successful", 0b0001: "directory cannot be created", 0b1111: "not performed"},
    6: {0b0000: "successful", 0b0001: "directory does not exist", 0b0010: "delete not allowed", 0b1111: "not performed"},
    7: {0b0000: "successful", 0b0010: "delete not allowed", 0b1111: "not performed"},
    8: {0b0000: "successful", 0b0010: "delete not allowed", 0b1111: "not performed"},
}

# library member name -> (action code, 4-bit status) by the meaning the name states
FILESTORE_STATUS_NAMES = {
    "CREATE_SUCCESS": (0, 0), "CREATE_NOT_ALLOWED": (0, 1), "CREATE_NOT_PERFORMED": (0, 15),
    "DELETE_SUCCESS": (1, 0), "DELETE_FILE_DOES_NOT_EXIST": (1, 1), "DELETE_NOT_ALLOWED": (1, 2), "DELETE_NOT_PERFORMED": (1, 15),
    "RENAME_SUCCESS": (2, 0), "RENAME_OLD_FILE_DOES_NOT_EXIST": (2, 1), "RENAME_NEW_FILE_DOES_EXIST": (2, 2), "RENAME_NOT_ALLOWED": (2, 3), "RENAME_NOT_PERFORMED": (2, 15),
    "APPEND_SUCCESS": (3, 0), "APPEND_FILE_NAME_ONE_NOT_EXISTS": (3, 1), "APPEND_FILE_NAME_TWO_NOT_EXISTS": (3, 2), "APPEND_NOT_ALLOWED": (3, 3), "APPEND_NOT_PERFORMED": (3, 15),
    "REPLACE_SUCCESS": (4, 0), "REPLACE_FILE_NAME_ONE_TO_BE_REPLACED_DOES_NOT_EXIST": (4, 1), "REPLACE_FILE_NAME_TWO_REPLACE_SOURCE_NOT_EXIST": (4, 2), "REPLACE_NOT_ALLOWED": (4, 3),
    "REPLACE_NOT_PERFORMED": (4, 15),
    "CREATE_DIR_SUCCESS": (5, 0), "CREATE_DIR_CAN_NOT_BE_CREATED": (5, 1), "CREATE_DIR_NOT_PERFORMED": (5, 15),
    "REMOVE_DIR_SUCCESS": (6, 0), "REMOVE_DIR_DOES_NOT_EXIST": (6, 1), "REMOVE_DIR_NOT_ALLOWED": (6, 2), "REMOVE_DIR_NOT_PERFORMED": (6, 15),
    "DENY_FILE_DEL_SUCCESS": (7, 0), "DENY_FILE_DEL_NOT_ALLOWED": (7, 2), "DENY_FILE_DEL_NOT_PERFORMED": (7, 15),
    "DENY_DIR_DEL_SUCCESS": (8, 0), "DENY_DIR_DEL_NOT_ALLOWED": (8, 2), "DENY_DIR_DEL_NOT_PERFORMED": (8, 15),
}

PINNED = {
    # names abbreviate SANA registry entries; values as in the pinned commit
    ("spacepackets.uslp.frame", "UslpProtocolIdentifier"): {
        "SPACE_PACKETS_ENCAPSULATION_PACKETS": 0, "COP_1_CTRL_COMMANDS": 1, "COP_2_CTRL_COMMANDS": 2, "SDLS_CTRL_COMMANDS": 3, "USER_DEFINED_OCTET_STREAM": 4,
        "MISSION_SPECIFIC_INFO_1_MAPA_SDU": 5, "PRIXMITY_1_PSEUDO_PACKET_ID_1": 6, "PROXIMITY_1_SPDUS": 7, "PRIXMITY_1_PSEUDO_PACKET_ID_2": 8, "IDLE_DATA": 31,
    },
    ("spacepackets.ecss.defs", "PusService"): {
        "S1_VERIFICATION": 1, "S2_RAW_CMD": 2, "S3_HOUSEKEEPING": 3, "S5_EVENT": 5, "S6_MEMORY_MGMT": 6, "S8_FUNC_CMD": 8, "S9_TIME_MGMT": 9, "S11_TC_SCHED": 11, "S15_TM_STORAGE": 15,
        "S17_TEST": 17, "S20_PARAMETER": 20, "S23_FILE_MGMT": 23,
    },
}


def owner(table_key) -> str:
    """The property whose statement covers the enumeration (names checks are registered there)."""
    mod = table_key[0]
    if mod.startswith("spacepackets.ccsds.spacepacket"):
        return "C01"
    if mod.startswith("spacepackets.ccsds.time"):
        return "C14"
    if mod.startswith("spacepackets.uslp"):
        return "C17"
    if mod.startswith("spacepackets.ecss.pus_1") or mod.startswith("spacepackets.ecss.fields"):
        return "C15"
    if mod.startswith("spacepackets.ecss"):
        return "C03"
    if mod.startswith("spacepackets.cfdp.tlv"):
        return "C18" if table_key[1] in ("ProxyMessageType", "DirectoryOperationMessageType") else "C08"
    if table_key[1] in ("PduType", "Direction", "TransmissionMode", "CrcFlag", "LargeFileFlag", "SegmentMetadataFlag", "SegmentationControl"):
        return "C05"
    if table_key[1] == "RecordContinuationState":
        return "C07"
    if table_key[1] == "FaultHandlerCode":
        return "C08"
    return "C06"
