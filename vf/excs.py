"""Documented decode-error classes (DESIGN 3.5).  Everything else escaping a decoder is a deviation."""
from __future__ import annotations

_cache = None


def allowed():
    global _cache
    if _cache is None:
        from spacepackets.cfdp.defs import UnsupportedCfdpVersion
        from spacepackets.cfdp.exceptions import InvalidCrc, TlvTypeMissmatch
        from spacepackets.ecss.tc import InvalidTcCrc16
        from spacepackets.ecss.tm import InvalidTmCrc16
        from spacepackets.uslp import defs as ud

        uslp = tuple(
            getattr(ud, n)
            for n in dir(ud)
            if n.startswith("Uslp") and isinstance(getattr(ud, n), type) and issubclass(getattr(ud, n), Exception)
        )
        _cache = (ValueError, InvalidTcCrc16, InvalidTmCrc16, InvalidCrc, TlvTypeMissmatch, UnsupportedCfdpVersion) + uslp
    return _cache
