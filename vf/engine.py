"""Engine: collect -> bucket -> shrink, sharded over processes, evidence and verdict."""
from __future__ import annotations

import importlib
import json
import multiprocessing as mp
import os
import random
import re
import sys
import time
from typing import Any, Dict, List, Optional

from .core import Clause, Dev, HarnessError, canon, derive_seed, digest, guarded, guarded_state

VERIF_DIR = os.path.dirname(os.path.dirname(os.path.abspath(__file__)))

MAX_SAMPLES_PER_CLAUSE = 3
DIGEST_CAP = 400_000  # per task; beyond that the distinct count is a lower bound


class _Hit(AssertionError):
    pass


class _StopShrink(BaseException):
    pass


def _settings(n, shrink, steps=None):
    from hypothesis import HealthCheck, Phase, settings

    kw = dict(
        max_examples=n,
        database=None,
        deadline=None,
        derandomize=False,
        report_multiple_bugs=False,
        print_blob=False,
        phases=[Phase.generate, Phase.shrink] if shrink else [Phase.generate],
        suppress_health_check=[
            HealthCheck.too_slow,
            HealthCheck.data_too_large,
            HealthCheck.large_base_example,
        ],
    )
    if steps is not None:
        kw["stateful_step_count"] = steps
    return settings(**kw)


class TaskResult:
    def __init__(self, clause_id, shard, seed):
        self.clause_id = clause_id
        self.shard = shard
        self.seed = seed
        self.evaluations = 0
        self.cases = 0
        self.nontrivial = 0
        self.digests = {}  # digest -> weight (1, or the number of distinct sub-evaluations of the case)
        self.digest_overflow = False
        self.classes: Dict[str, int] = {}
        self.samples: List[Any] = []
        self._reservoir_rng = random.Random(seed)
        self._nt_seen = 0
        self.buckets: Dict[str, Dict[str, Any]] = {}
        self.wall = 0.0
        self.notes: List[str] = []

    def note_case(self, clause: Clause, case, devs: List[Dev], evals: int = 1):
        self.cases += 1
        self.evaluations += evals
        try:
            # an oracle that reports 0 evaluations says the case fell outside the clause's domain: never non-trivial
            nt = bool(clause.nontrivial(case)) and evals > 0
            labels = (clause.classify(case) or []) if evals > 0 else ["(outside the clause's domain)"]
        except Exception as e:  # harness bug
            raise HarnessError(f"nontrivial/classify failed for {clause.id}: {e!r}") from e
        for lab in labels:
            self.classes[lab] = self.classes.get(lab, 0) + 1
        if nt:
            self.nontrivial += 1
            if len(self.digests) < DIGEST_CAP:
                self.digests[digest(case)] = max(1, evals) if clause.weight_by_evals else 1
            else:
                self.digest_overflow = True
            self._nt_seen += 1
            if len(self.samples) < MAX_SAMPLES_PER_CLAUSE:
                self.samples.append(_clip_sample(case))
            elif self._reservoir_rng.random() < 1.0 / self._nt_seen:
                self.samples[-1] = _clip_sample(case)
        for d in devs:
            sig = f"{clause.id}|{d.sub}"
            b = self.buckets.get(sig)
            size = len(canon(case))
            if b is None:
                self.buckets[sig] = {"count": 1, "case": case, "size": size, "detail": d.detail, "shrunk": False}
            else:
                b["count"] += 1
                if size < b["size"]:
                    b.update(case=case, size=size, detail=d.detail)

    def to_dict(self):
        return {
            "clause_id": self.clause_id,
            "shard": self.shard,
            "seed": self.seed,
            "evaluations": self.evaluations,
            "cases": self.cases,
            "nontrivial": self.nontrivial,
            "digests": self.digests,
            "digest_overflow": self.digest_overflow,
            "classes": self.classes,
            "samples": self.samples,
            "buckets": self.buckets,
            "wall": self.wall,
            "notes": self.notes,
        }


def _clip_sample(case, limit=1200):
    s = canon(case)
    if len(s) <= limit:
        return case
    return {"clipped_case_json": s[:limit] + "...", "full_len": len(s)}


# ---- given -----------------------------------------------------------------------------------


def _run_given(strategy, seed, n, body, shrink):
    from hypothesis import given, seed as hseed

    @_settings(n, shrink)
    @hseed(seed)
    @given(strategy)
    def t(case):
        body(case)

    t()


def _collect_given(clause: Clause, seed: int, n: int, res: TaskResult):
    def body(case):
        devs = clause.run_check(case)
        res.note_case(clause, case, devs, evals=clause.last_evals)

    _run_given(clause.strategy(), seed, n, body, shrink=False)


def _shrink_given(clause: Clause, seed: int, n: int, sub: str, cap: int):
    best = {"case": None, "detail": "", "size": None, "last": None, "evals": 0, "all": 0}

    def body(case):
        # the shrinker's own limit is five minutes per bucket; a library changed in many places has dozens of buckets, so the number of
        # evaluations (hits or not) is bounded as well - an unfinished shrink only means a larger replay case
        best["all"] += 1
        if best["all"] > 30 * cap and best["case"] is not None:
            raise _StopShrink()
        devs = clause.run_check(case)
        hit = [d for d in devs if d.sub == sub]
        if hit:
            size = len(canon(case))
            best["last"] = (case, hit[0].detail)
            if best["size"] is None or size < best["size"]:
                best.update(case=case, detail=hit[0].detail, size=size)
            best["evals"] += 1
            if best["evals"] > cap:
                raise _StopShrink()
            raise _Hit(sub)

    completed = False
    try:
        _run_given(clause.strategy(), seed, n, body, shrink=True)
    except _StopShrink:
        pass
    except _Hit:
        completed = True
    except Exception as e:
        # hypothesis may wrap (Flaky etc.); anything not ours is a harness problem
        if type(e).__name__ in ("Flaky", "FlakyFailure", "FlakyReplay"):
            pass
        else:
            raise
    if completed and best["last"] is not None:
        return best["last"]
    if best["case"] is not None:
        return best["case"], best["detail"]
    return None


# ---- enum ------------------------------------------------------------------------------------


def _collect_enum(clause: Clause, tier, seed, shard, nshards, res: TaskResult):
    rng = random.Random(seed)
    for case in clause.enum(tier, shard, nshards, rng):
        devs = clause.run_check(case)
        res.note_case(clause, case, devs, evals=clause.last_evals)


# ---- history ---------------------------------------------------------------------------------


def _build_machine(spec, mode, on_end, hit_sub=None, cap=None):
    from hypothesis.stateful import RuleBasedStateMachine, initialize, precondition, rule

    counter = {"hits": 0}

    def __init__(self):
        RuleBasedStateMachine.__init__(self)
        self.state = None
        self.trace = {"init": None, "steps": []}
        self.dead = False
        self.devs = []
        self.evals = 0

    def _post(self, devs, where):
        self.evals += 1
        if not devs:
            return
        devs = [Dev(d.sub, f"{where}: {d.detail}") for d in devs]
        if mode == "collect":
            self.devs = devs
            self.dead = True
            return
        hit = [d for d in devs if d.sub == hit_sub]
        self.dead = True
        if hit:
            self.devs = hit
            counter["hits"] += 1
            on_end(self.trace, hit, self.evals)
            if cap is not None and counter["hits"] > cap:
                raise _StopShrink()
            raise _Hit(hit_sub)

    def _init(self, params):
        self.trace["init"] = params
        r = guarded_state(spec.start, params)
        if isinstance(r, list):
            self._post(r, "init")
            return
        self.state = r
        self._post(guarded(spec.invariant, self.state), "after init")

    def teardown(self):
        if self.state is not None:
            spec.teardown(self.state)
        if mode == "collect":
            on_end(self.trace, self.devs, self.evals)

    ns = {
        "__init__": __init__,
        "_post": _post,
        "teardown": teardown,
        "_init": initialize(params=spec.init_strategy())(_init),
    }

    def mk(name):
        def fn(self, args):
            if self.dead or self.state is None:
                return
            self.trace["steps"].append([name, args])
            i = len(self.trace["steps"]) - 1
            devs = guarded(spec.step, self.state, name, args)
            if not devs:
                devs = guarded(spec.invariant, self.state)
            self._post(devs, f"step {i} {name}")

        fn.__name__ = f"op_{name}"
        pre = precondition(lambda self, name=name: self.dead or self.state is None or spec.enabled(self.state, name))
        return pre(rule(args=strat)(fn))

    for name, strat in spec.ops().items():
        ns[f"op_{name}"] = mk(name)
    return type("Machine", (RuleBasedStateMachine,), ns)


def _run_machine(M, seed, n, steps, shrink):
    from hypothesis import seed as hseed
    from hypothesis.stateful import run_state_machine_as_test

    run_state_machine_as_test(hseed(seed)(M), settings=_settings(n, shrink, steps))


def _collect_history(clause: Clause, seed, n, res: TaskResult):
    spec = clause.history

    def on_end(trace, devs, evals):
        if trace["init"] is None:
            return
        res.note_case(clause, trace, devs, evals=max(evals, 1))

    M = _build_machine(spec, "collect", on_end)
    _run_machine(M, seed, n, spec.max_steps, shrink=False)


def _shrink_history(clause: Clause, seed, n, sub, cap):
    spec = clause.history
    best = {"case": None, "detail": "", "size": None, "last": None}

    def on_end(trace, devs, evals):
        case = json.loads(canon(trace))
        size = len(canon(case))
        best["last"] = (case, devs[0].detail)
        if best["size"] is None or size < best["size"]:
            best.update(case=case, detail=devs[0].detail, size=size)

    M = _build_machine(spec, "shrink", on_end, hit_sub=sub, cap=cap)
    completed = False
    try:
        _run_machine(M, seed, n, spec.max_steps, shrink=True)
    except _StopShrink:
        pass
    except _Hit:
        completed = True
    except Exception as e:
        if type(e).__name__ in ("Flaky", "FlakyFailure", "FlakyReplay"):
            pass
        else:
            raise
    if completed and best["last"] is not None:
        return best["last"]
    if best["case"] is not None:
        return best["case"], best["detail"]
    return None


# ---- fuzz (atheris subprocess) ---------------------------------------------------------------


def _collect_fuzz(clause: Clause, tier, seed, shard, nshards, res: TaskResult):
    """Coverage-guided campaign in a subprocess (vf/fuzz/target.py); buckets it reports are re-run through
    the clause's plain oracle, so only reproducible deviations count and the replay file is a plain case."""
    import shutil
    import subprocess

    spec = clause.fuzz
    runs = spec["runs"].get(tier, 0)
    if runs <= 0:
        return
    deps_dir = os.path.join(VERIF_DIR, ".deps")
    env = dict(os.environ, PYTHONPATH=VERIF_DIR + os.pathsep + deps_dir, PYTHONHASHSEED="0", PYTHONDONTWRITEBYTECODE="1")
    probe = subprocess.run([sys.executable, "-c", "import atheris"], env=env, capture_output=True)
    if probe.returncode != 0:
        subprocess.run([sys.executable, "-m", "pip", "install", "--no-index", "--find-links", "/opt/veriftools/wheels", "--target", deps_dir, "atheris"],
                       env=dict(os.environ, PIP_NO_INDEX="1"), capture_output=True)
        probe = subprocess.run([sys.executable, "-c", "import atheris"], env=env, capture_output=True)
    if probe.returncode != 0:
        res.notes.append("atheris not installable in this sandbox: fuzz clause skipped (the Hypothesis clauses still decide the property)")
        return
    work = os.path.join(VERIF_DIR, ".work", f"fuzz-{clause.id}-{os.getpid()}-{shard}")
    shutil.rmtree(work, ignore_errors=True)
    os.makedirs(work, exist_ok=True)
    out = os.path.join(work, "result.json")
    seeded = spec.get("seeded", 3) if shard % 2 == 1 else 0  # even shards start from an empty corpus, odd shards from valid units
    cmd = [sys.executable, "-B", "-m", "vf.fuzz.target", "--prop", spec["prop"], "--out", out, "--work", work, "--runs", str(runs), "--seed", str(seed % (2**31 - 1) + 1),
           "--seeded", str(seeded)]
    try:
        try:
            p = subprocess.run(cmd, cwd=VERIF_DIR, env=env, capture_output=True, text=True, timeout=runs / 500 + 600)
            rc = p.returncode
        except subprocess.TimeoutExpired:
            rc = None
            res.notes.append("fuzz campaign hit its wall-clock cap: inconclusive beyond what it reported")
        if not os.path.exists(out):
            raise HarnessError(f"fuzz target produced no result (rc={rc}): {(p.stderr if rc is not None else '')[-800:]}")
        r = json.load(open(out))
        if "harness:exception" in r["buckets"]:
            raise HarnessError(f"fuzz target harness exception: {r['buckets']['harness:exception']['detail']}")
        res.cases += r["executions"]
        res.evaluations += r["executions"]
        res.nontrivial += r["distinct_nontrivial"]
        res.digests[f"fuzz-{clause.id}-{shard}"] = r["distinct_nontrivial"]
        for k, v in r["per_entry"].items():
            res.classes[k] = res.classes.get(k, 0) + v
        res.classes["corpus: seeded" if seeded else "corpus: empty"] = r["executions"]
        res.samples.extend(r["samples"][: MAX_SAMPLES_PER_CLAUSE - len(res.samples)])
        res.notes.append(json.dumps({"shard": shard, "seeded_corpus": seeded, "executions_at_least": r["executions"], "runs_requested": runs, "in_domain": r.get("in_domain"),
                                     "corpus_files_at_end": r["corpus_files"], "buckets_reported": sorted(r["buckets"]), "libfuzzer_seed": seed % (2**31 - 1) + 1}))
        for sig, b in r["buckets"].items():
            devs = clause.run_check(b["case"])
            if not devs:
                res.notes.append(f"fuzz bucket {sig} did not reproduce through the plain oracle; ignored")
                continue
            for d in devs:
                s2 = f"{clause.id}|{d.sub}"
                size = len(canon(b["case"]))
                cur = res.buckets.get(s2)
                if cur is None or size < cur["size"]:
                    res.buckets[s2] = {"count": b["count"], "case": b["case"], "size": size, "detail": d.detail, "shrunk": True}
    finally:
        shutil.rmtree(work, ignore_errors=True)


# ---- task runner -----------------------------------------------------------------------------


def load_property(prop_id: str):
    mod = importlib.import_module(f"vf.props.{prop_id.lower()}")
    return mod.PROPERTY


def run_task(args):
    prop_id, clause_id, tier, base_seed, shard, nshards, known_sigs, shrink_cap = args
    try:
        prop = load_property(prop_id)
        clause = next(c for c in prop.clauses if c.id == clause_id)
        seed = derive_seed(base_seed, clause_id, shard)
        res = TaskResult(clause_id, shard, seed)
        t0 = time.time()
        n = clause.n.get(tier, clause.n["quick"])
        if clause.kind == "given":
            _collect_given(clause, seed, n, res)
        elif clause.kind == "enum":
            _collect_enum(clause, tier, seed, shard, nshards, res)
        elif clause.kind == "history":
            _collect_history(clause, seed, n, res)
        elif clause.kind == "fuzz":
            _collect_fuzz(clause, tier, seed, shard, nshards, res)
        else:
            raise HarnessError(f"unknown clause kind {clause.kind}")
        # shrink every bucket not listed as a known finding
        for sig, b in res.buckets.items():
            if sig in known_sigs or clause.kind in ("enum", "fuzz"):
                continue
            sub = sig.split("|", 1)[1]
            cap = shrink_cap if clause.shrink_cap is None else min(shrink_cap, clause.shrink_cap)
            if clause.kind == "given":
                r = _shrink_given(clause, seed, n, sub, cap)
            else:
                r = _shrink_history(clause, seed, n, sub, cap)
            if r is not None:
                case, detail = r
                case = json.loads(canon(case))
                # trust but verify: the shrunk case must reproduce through the plain path
                again = [d for d in clause.run_check(case) if d.sub == sub]
                if again:
                    b.update(case=case, size=len(canon(case)), detail=again[0].detail, shrunk=True)
        res.wall = time.time() - t0
        return res.to_dict()
    except BaseException as e:  # noqa: BLE001
        import traceback

        return {"clause_id": clause_id, "shard": shard, "error": f"{type(e).__name__}: {e}", "tb": traceback.format_exc()}


def sanitize(sig: str) -> str:
    return re.sub(r"[^A-Za-z0-9_.@-]+", "_", sig)[:150]


def read_known_findings(prop_id: str):
    path = os.path.join(VERIF_DIR, "KNOWN_FINDINGS.txt")
    known = {}
    if os.path.exists(path):
        for line in open(path):
            line = line.strip()
            if not line.startswith("open:"):
                continue
            m = re.match(r"open:\s+property=(\S+)\s+sig=(\S+)\s*(.*)", line)
            if m and m.group(1) == prop_id:
                known[m.group(2)] = m.group(3)
    return known


def run_regressions(prop, known):
    """Replay committed minimal cases of repaired defects (plain path, no hypothesis)."""
    d = os.path.join(VERIF_DIR, "regressions", prop.id)
    out = []
    n = 0
    if os.path.isdir(d):
        for fn in sorted(os.listdir(d)):
            if not fn.endswith(".json"):
                continue
            rec = json.load(open(os.path.join(d, fn)))
            clause = next((c for c in prop.clauses if c.id == rec["clause"]), None)
            if clause is None:
                raise HarnessError(f"regression {fn} names unknown clause {rec['clause']}")
            n += 1
            devs = clause.run_check(rec["case"])
            for dv in devs:
                sig = f"{clause.id}|{dv.sub}"
                if sig in known:
                    continue
                out.append((sig, os.path.join("regressions", prop.id, fn), dv.detail))
    return n, out


def run_property(prop_id: str, tier: str, base_seed: int, only: Optional[str] = None, procs: Optional[int] = None) -> int:
    t0 = time.time()
    os.environ["VERIF_TIER_ACTIVE"] = tier
    prop = load_property(prop_id)
    known = read_known_findings(prop_id)
    shrink_cap = 150 if tier == "quick" else 1500
    clauses = [c for c in prop.clauses if (only is None or re.search(only, c.id)) and tier in c.tiers]
    if not clauses:
        raise HarnessError(f"no clause matches {only}")
    nreg, reg_viol = run_regressions(prop, known)

    if procs is None:
        procs = int(os.environ.get("VERIF_PROCS", "0")) or (8 if tier == "quick" else 16)
    per_clause: Dict[str, Dict[str, Any]] = {}
    buckets: Dict[str, Dict[str, Any]] = {}
    all_digests = {}
    overflow = False
    # A clause names the classes of cases it must have produced (``required``).  Generation is random, so a class can be missed by
    # bad luck under one seed; before that is called a harness error the clause is topped up - run again under seeds derived from
    # VERIF_SEED and the round number, results added - at most three times.  Still a function of the code and VERIF_SEED.
    pending = list(clauses)
    for topup in range(4):
        tasks = []
        for c in pending:
            ns = c.shards.get(tier, 1)
            for sh in range(ns):
                tasks.append((prop_id, c.id, tier, base_seed if topup == 0 else derive_seed(base_seed, "top-up", topup), sh, ns, set(known), shrink_cap))
        nproc = max(1, min(procs, len(tasks)))
        # every task runs in a process forked from this one for that task alone: what a task generates must not depend on which other
        # tasks the same worker happened to run before it (imported modules feed Hypothesis' pool of constants, the library keeps
        # module-level state) - otherwise a run is not a function of the code and VERIF_SEED, and differs with the number of processes
        ctx = mp.get_context("fork")
        with ctx.Pool(nproc, maxtasksperchild=1) as pool:
            results = pool.map(run_task, tasks, chunksize=1)

        errors = [r for r in results if "error" in r]
        if errors:
            for r in errors:
                print(f"HARNESS-ERROR clause={r['clause_id']} shard={r['shard']}: {r['error']}", file=sys.stderr)
                print(r["tb"], file=sys.stderr)
            return 2

        # merge ------------------------------------------------------------------------------
        for r in results:
            pc = per_clause.setdefault(
                r["clause_id"],
                {"evaluations": 0, "cases": 0, "nontrivial": 0, "digests": {}, "classes": {}, "samples": [], "wall_s": 0.0, "shards": 0, "notes": []},
            )
            pc["evaluations"] += r["evaluations"]
            pc["cases"] += r["cases"]
            pc["nontrivial"] += r["nontrivial"]
            pc["digests"].update(r["digests"])
            overflow = overflow or r["digest_overflow"]
            pc["wall_s"] += r["wall"]
            pc["notes"].extend(r.get("notes") or [])
            if topup:
                pc["notes"].append(f"top-up round {topup}: a required class had not been generated")
            pc["shards"] += 1
            for k, v in r["classes"].items():
                pc["classes"][k] = pc["classes"].get(k, 0) + v
            if len(pc["samples"]) < MAX_SAMPLES_PER_CLAUSE:
                pc["samples"].extend(r["samples"][: MAX_SAMPLES_PER_CLAUSE - len(pc["samples"])])
            for sig, b in r["buckets"].items():
                cur = buckets.get(sig)
                if cur is None:
                    buckets[sig] = dict(b)
                else:
                    cur["count"] += b["count"]
                    better = (b["shrunk"] and not cur["shrunk"]) or (b["shrunk"] == cur["shrunk"] and b["size"] < cur["size"])
                    if better:
                        cnt = cur["count"]
                        cur.update(b)
                        cur["count"] = cnt
        pending = [c for c in clauses if any(per_clause.get(c.id, {"classes": {}})["classes"].get(req, 0) == 0 for req in c.required)]
        if not pending:
            break

    # vacuity: required classes must have been produced
    vacuous = []
    for c in clauses:
        pc = per_clause.get(c.id)
        for req in c.required:
            if pc is None or pc["classes"].get(req, 0) == 0:
                vacuous.append(f"{c.id}: required class '{req}' never generated")
        if (pc is None or pc["cases"] == 0) and c.kind != "fuzz":
            vacuous.append(f"{c.id}: no cases generated")

    # verdict ----------------------------------------------------------------------------
    violations = []
    known_hits = []
    for sig in sorted(buckets):
        b = buckets[sig]
        if sig in known:
            known_hits.append((sig, known[sig], b["count"]))
            continue
        rdir = os.path.join(VERIF_DIR, "replays", prop_id)
        os.makedirs(rdir, exist_ok=True)
        rel = os.path.join("replays", prop_id, sanitize(sig) + ".json")
        with open(os.path.join(VERIF_DIR, rel), "w") as f:
            json.dump(
                {"property": prop_id, "clause": sig.split("|", 1)[0], "sig": sig, "detail": b["detail"], "count_in_run": b["count"],
                 "shrunk": b["shrunk"], "tier": tier, "seed": base_seed, "case": b["case"]},
                f, indent=1, sort_keys=True, default=lambda o: {"__hex__": bytes(o).hex()},
            )
        violations.append((sig, rel, b["detail"], b["count"]))
    for sig, rel, detail in reg_viol:
        violations.append((sig, rel, "regression case fails again: " + detail, 1))

    for c in clauses:
        all_digests.update(per_clause[c.id]["digests"] if c.id in per_clause else {})

    wall = time.time() - t0
    _write_evidence(prop, tier, base_seed, clauses, per_clause, buckets, known, violations, all_digests, overflow, nreg, wall, vacuous, only)

    for sig, what, cnt in known_hits:
        print(f"KNOWN-FINDING: property={prop_id} {sig} {what} (seen {cnt}x this run)")
    for sig, rel, detail, cnt in violations:
        print(f"VIOLATION property={prop_id} replay={rel}")
        print(f"  signature: {sig}  ({cnt}x)  {detail[:300]}")
    total_eval = sum(pc["evaluations"] for pc in per_clause.values())
    print(
        f"[{prop_id} {tier} seed={base_seed}] clauses={len(clauses)} evaluations={total_eval} "
        f"distinct_nontrivial={sum(all_digests.values())} regressions_replayed={nreg} buckets={len(buckets)} "
        f"violations={len(violations)} wall={wall:.1f}s"
    )
    if violations:
        return 1
    if vacuous:
        for v in vacuous:
            print(f"HARNESS-ERROR vacuous: {v}", file=sys.stderr)
        return 2
    return 0


def _write_evidence(prop, tier, seed, clauses, per_clause, buckets, known, violations, all_digests, overflow, nreg, wall, vacuous, only):
    samples = []
    pcs = {}
    exhaustive_sub = []
    for c in clauses:
        pc = per_clause.get(c.id)
        if pc is None:
            continue
        pcs[c.id] = {
            "doc": c.doc,
            "kind": c.kind,
            "evaluations": pc["evaluations"],
            "cases": pc["cases"],
            "nontrivial": pc["nontrivial"],
            "distinct_nontrivial": sum(pc["digests"].values()),
            "classes": dict(sorted(pc["classes"].items())),
            "rule": c.rule,
            "shards": pc["shards"],
            "cpu_s": round(pc["wall_s"], 2),
        }
        if pc["notes"]:
            pcs[c.id]["notes"] = pc["notes"]
        if c.exhaustive_note:
            exhaustive_sub.append({"clause": c.id, "what": c.exhaustive_note, "cases": pc["cases"]})
        for s in pc["samples"][:2]:
            samples.append({"clause": c.id, "case": s})
    ev = {
        "property_id": prop.id,
        "tier": tier,
        "seed": seed,
        "level": prop.level,
        "coverage": {
            "evaluations": sum(pc["evaluations"] for pc in per_clause.values()),
            "distinct_nontrivial": sum(all_digests.values()),
            "distinct_count_is_lower_bound": overflow,
            "rule": prop.rule,
            "samples": samples,
            "exhaustive": False,
            "exhaustive_subdomains": exhaustive_sub,
            "per_clause": pcs,
            "buckets": {sig: {"count": b["count"], "known": sig in known} for sig, b in sorted(buckets.items())},
            "regressions_replayed": nreg,
            "clause_filter": only,
            "vacuity_errors": vacuous,
        },
        "assumptions": prop.assumptions,
        "wall_s": round(wall, 2),
        "violations": len(violations),
    }
    ev["coverage"].update(prop.extra_coverage or {})
    # evidence/ describes /repo only: a run aimed at another tree (VERIF_REPO: a mutant or a seeded change in a scratch worktree)
    # writes its record under .work/, and so does a partial run (--only), which would otherwise replace the full record
    from .core import REPO

    ev_dir = os.path.join(VERIF_DIR, "evidence") if (REPO == os.path.realpath("/repo") and not only) else os.path.join(VERIF_DIR, ".work", "evidence-other")
    os.makedirs(ev_dir, exist_ok=True)
    path = os.path.join(ev_dir, f"{prop.id}.json")
    tmp = path + ".tmp"
    with open(tmp, "w") as f:
        json.dump(ev, f, indent=1, default=lambda o: {"__hex__": bytes(o).hex()})
        f.write("\n")
    os.replace(tmp, path)


def replay(prop_id: str, path: str) -> int:
    prop = load_property(prop_id)
    rec = json.load(open(path))
    clause = next((c for c in prop.clauses if c.id == rec["clause"]), None)
    if clause is None:
        raise HarnessError(f"unknown clause {rec['clause']}")
    devs = clause.run_check(rec["case"])
    want = rec.get("sig", "").split("|", 1)[-1]
    for d in devs:
        print(f"  deviation {clause.id}|{d.sub}: {d.detail}")
    if devs:
        rel = os.path.relpath(os.path.abspath(path), VERIF_DIR)
        print(f"VIOLATION property={prop_id} replay={rel}")
        if want and not any(d.sub == want for d in devs):
            print(f"  (note: recorded signature {want} not among them)")
        return 1
    print(f"[{prop_id}] replay {path}: no deviation")
    return 0
