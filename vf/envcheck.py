"""Interpreter-environment clauses: the same decoding work done in a child interpreter started with other flags
(-O: assert statements removed; -W error: warnings raised as exceptions) must have the outcomes it has in this process.

The parent draws valid units (and a few damaged ones) from the decoder table, decodes them in-process, and hands the same
list to the child.  Compared per unit: outcome class (result / documented error / anything else with its type), the
observation function of the entry, the reported length, and the repr of every public property of the result.
This is a metamorphic relation; the in-process outcomes themselves are judged against the references by the other clauses."""
from __future__ import annotations

import json

from hypothesis import strategies as st

from . import decoders as D
from .core import Clause, Dev, child_python

CHILD = r"""
import json, sys, os
sys.path.insert(0, sys.argv[2])
if os.environ.get("VERIF_CHILD_LOGGING"):
    # the application has switched its logging to DEBUG (root logger and the library's own logger); records go to a null stream
    import logging
    logging.basicConfig(level=logging.DEBUG, stream=open(os.devnull, "w"))
    logging.getLogger("spacepackets").setLevel(logging.DEBUG)
    try:
        import spacepackets
        spacepackets.get_lib_logger().setLevel(logging.DEBUG)
    except Exception:
        pass
from vf import envcheck
units = json.loads(sys.stdin.read()) if False else json.loads(sys.argv[3])
sys.stdout.write(json.dumps([envcheck.observe(u) for u in units]))
"""


def _props_of(obj):
    out = {}
    for name in dir(type(obj)):
        if name.startswith("_"):
            continue
        if isinstance(getattr(type(obj), name, None), property):
            try:
                out[name] = repr(getattr(obj, name))[:200]
            except Warning:
                # a property that is itself deprecated, read in an interpreter that turns warnings into errors: what the caller asked for
                continue
            except Exception as e:  # noqa: BLE001 - the type of the escape is the observation
                out[name] = f"EXC:{type(e).__name__}"
    return out


def observe(u):
    e = D.ENTRIES[u["entry"]]
    kind, r = D.outcome(e, bytes.fromhex(u["buf"]), u["cfg"])
    if kind != "ok":
        return {"kind": kind, "exc": type(r).__name__ if r is not None else None}
    out = {"kind": "ok"}
    try:
        if e.obs is not None and r is not None:
            out["obs"] = json.loads(json.dumps(e.obs(r), default=str))
        if e.replen is not None and r is not None:
            out["replen"] = e.replen(r, u["cfg"])
        if r is not None and not isinstance(r, (int, tuple, list, bytes, bytearray)):
            out["props"] = _props_of(r)
            if hasattr(r, "pack") and not isinstance(r, type):
                try:
                    out["packed"] = bytes(r.pack()).hex()
                except TypeError:
                    pass
    except Exception as ex:  # noqa: BLE001
        out["after"] = f"EXC:{type(ex).__name__}"
    return out


def st_units(families):
    entries = [e for f in families for e in D.by_family(f)]

    def one(e):
        def mk(t):
            v, how, k = t
            raw = bytearray(bytes.fromhex(v["raw"]))
            if how == "prefix":
                raw = raw[: k % (len(raw) + 1)]
            elif how == "first_octet" and raw:
                raw[0] ^= 0x10 << (k % 4)  # identification / version / type bits: the refusal paths that format their input
            elif how == "bit_flip" and raw:
                raw[(k // 8) % len(raw)] ^= 1 << (k % 8)  # e.g. a checksum failure
            return {"entry": e.name, "cfg": v["cfg"], "buf": bytes(raw).hex()}

        return st.tuples(e.valid(), st.sampled_from(["valid", "valid", "prefix", "first_octet", "bit_flip"]), st.integers(0, 4095)).map(mk)

    return st.tuples(*[one(e) for e in entries]).map(list)


def make_check(flags, env_extra=None, label=None):
    def check(units):
        import os

        here = os.path.dirname(os.path.dirname(os.path.abspath(__file__)))
        got = child_python(CHILD, args=(here, json.dumps(units)), flags=flags, env_extra=env_extra)
        devs = []
        for u, g in zip(units, got):
            want = observe(u)
            if isinstance(g.get("props"), dict) and isinstance(want.get("props"), dict):
                common = set(g["props"]) & set(want["props"])  # deprecated properties are skipped on the side that raises for them
                g["props"] = {k: v for k, v in g["props"].items() if k in common}
                want["props"] = {k: v for k, v in want["props"].items() if k in common}
            if g != want:
                diff = sorted(k for k in set(g) | set(want) if g.get(k) != want.get(k))
                detail = {k: (g.get(k), want.get(k)) for k in diff}
                if "props" in diff and isinstance(g.get("props"), dict) and isinstance(want.get("props"), dict):
                    detail["props"] = {k: (g["props"].get(k), want["props"].get(k)) for k in set(g["props"]) | set(want["props"]) if g["props"].get(k) != want["props"].get(k)}
                devs.append(Dev(f"{u['entry']}:differs_under_{label or '_'.join(flags).replace('-', '')}:{','.join(diff)}", f"child {' '.join(flags)} {env_extra or ''} vs in-process: {json.dumps(detail, default=str)[:400]} unit={u}"))
        return devs, len(units)

    return check


def env_clauses(prop_id, families, n_quick=4, n_thorough=60, more_of=None, more=0):
    """``more_of`` names one entry of which ``more`` further valid units are put into every case (a property whose own decoder has
    many kinds of input, e.g. the reserved-message parsers)."""
    out = []

    def strategy(families=families):
        base = st_units(families)
        if not more_of:
            return base
        e = D.ENTRIES[more_of]
        extra = st.lists(e.valid().map(lambda v: {"entry": e.name, "cfg": v["cfg"], "buf": v["raw"]}), min_size=more, max_size=more)
        return st.tuples(base, extra).map(lambda t: t[0] + t[1])

    for tag, flags, env_extra in (("O", ("-OO",), None), ("W_error", ("-W", "error"), None), ("hashseed", (), {"PYTHONHASHSEED": "424242"}), ("bb", ("-bb",), None),
                                  ("debug_logging", (), {"VERIF_CHILD_LOGGING": "DEBUG"})):
        out.append(Clause(
            id=f"{prop_id}.interpreter_{tag}",
            doc=f"the decoders of {', '.join(families)} run in a child interpreter started with {' '.join(flags) or ('another hash seed (PYTHONHASHSEED=424242; this process runs with 0)' if tag == 'hashseed' else 'logging switched to DEBUG (root and library logger)')} give, "
                "unit by unit, the outcome, observed fields, reported length, public properties and re-packed octets they give in this process (valid units, prefixes, units with a changed first octet or one flipped bit)",
            strategy=strategy, check=make_check(flags, env_extra, tag),
            classify=lambda units: ["has truncated unit"] if any(True for u in units) else [], weight_by_evals=True,
            rule="each (unit, flag set) comparison is one evaluation",
            n={"quick": n_quick, "thorough": n_thorough}, shrink_cap=6,
        ))
    return out
