from __future__ import annotations

from dataclasses import dataclass, field
from typing import Any, Dict, List, Optional

from .core import Clause


@dataclass
class Property:
    id: str
    level: str  # exploration | fault_enumeration
    rule: str
    clauses: List[Clause]
    assumptions: List[str] = field(default_factory=list)
    extra_coverage: Optional[Dict[str, Any]] = None
