"""Dependency and code-under-test guards, repeated by every check invocation (idempotent)."""
from __future__ import annotations

import os
import subprocess
import sys

from .core import REPO, HarnessError

WHEELS = "/opt/veriftools/wheels"


def ensure():
    # 1. code under test: the working tree of VERIF_REPO, nothing else
    if sys.path[0] != REPO:
        sys.path.insert(0, REPO)
    for name in [m for m in sys.modules if m == "spacepackets" or m.startswith("spacepackets.")]:
        f = getattr(sys.modules[name], "__file__", "") or ""
        if not os.path.realpath(f).startswith(REPO + os.sep):
            del sys.modules[name]
    import spacepackets

    where = os.path.realpath(spacepackets.__file__)
    if not where.startswith(os.path.join(REPO, "spacepackets") + os.sep):
        raise HarnessError(f"spacepackets imported from {where}, expected under {REPO}")
    # 2. hypothesis
    try:
        import hypothesis  # noqa: F401
    except ImportError:
        subprocess.run(
            [sys.executable, "-m", "pip", "install", "--no-index", "--find-links", WHEELS, "hypothesis"],
            check=True, stdout=subprocess.DEVNULL,
        )
        import importlib

        importlib.invalidate_caches()
        import hypothesis  # noqa: F401
