"""Table of public decoder entry points (DESIGN 3.5), shared by C09, C10 and the fuzz target.

Every entry knows how to call its decoder on ``(buffer, plain-data configuration)``, how to
generate *valid* packed units together with the matching configuration (from the reference
encoders, never from the library's ``pack``), which leading octets are header / length / type
fields, how to re-patch a checksum over the declared extent, and how to observe the result.
"""
from __future__ import annotations

import signal
from dataclasses import dataclass, field
from typing import Any, Callable, Dict, List, Optional

from hypothesis import strategies as st

from . import cfdp_model as M
from .core import lib_frame_of
from .excs import allowed
from .ref import ccsds as RC
from .ref import cfdp as R
from .ref import pus as RP
from .ref.crc import crc_bytes
from .strategies import hexblob, uint


# ---- watchdog ("never loops") -------------------------------------------------------------------


class Hang(BaseException):
    pass


def _on_alarm(signum, frame):
    raise Hang()


WATCHDOG_S = 10.0


def outcome(entry: "Entry", buf: bytes, cfg: dict):
    """('ok', obj) | ('refused', exc) | ('bad', exc) | ('hang', None).  Harness bugs propagate."""
    old = signal.signal(signal.SIGALRM, _on_alarm)
    signal.setitimer(signal.ITIMER_REAL, WATCHDOG_S)
    try:
        try:
            r = entry.call(buf, cfg)
        finally:
            signal.setitimer(signal.ITIMER_REAL, 0)
        return "ok", r
    except allowed() as e:
        return "refused", e
    except Hang:
        return "hang", None
    except RecursionError as e:
        return "bad", e
    except Exception as e:  # noqa: BLE001
        if lib_frame_of(e) is None:
            raise
        return "bad", e
    finally:
        signal.signal(signal.SIGALRM, old)


# ---- checksum patching ---------------------------------------------------------------------------


def patch_pus_crc(buf: bytes, cfg=None) -> bytes:
    """Make the CRC-16 over the extent the space packet length field declares come out right."""
    if len(buf) < 6:
        return buf
    total = ((buf[4] << 8) | buf[5]) + 7
    if total > len(buf) or total < 2:
        return buf
    return buf[: total - 2] + crc_bytes(buf[: total - 2]) + buf[total:]


def patch_cfdp_crc(buf: bytes, cfg=None) -> bytes:
    if len(buf) < 4 or not (buf[0] & 0x02):
        return buf
    hl = 4 + 2 * (((buf[3] >> 4) & 7) + 1) + ((buf[3] & 7) + 1)
    total = hl + ((buf[1] << 8) | buf[2])
    if total > len(buf) or total < 2:
        return buf
    return buf[: total - 2] + crc_bytes(buf[: total - 2]) + buf[total:]


# ---- the table --------------------------------------------------------------------------------------


@dataclass
class Entry:
    name: str
    family: str
    call: Callable[[bytes, dict], Any]
    valid: Callable[[], Any]  # strategy of {"cfg": dict, "raw": hex}
    cfg: Callable[[], Any] = lambda: st.just({})  # configurations for arbitrary input
    delimited: bool = True  # every strict prefix of a valid unit must be refused
    head: Callable[[bytes, dict], int] = lambda raw, cfg: min(len(raw), 8)
    len_fields: Callable[[bytes, dict], List[tuple]] = lambda raw, cfg: []  # (offset, width) of length fields
    crc: Optional[Callable[[bytes, dict], bytes]] = None
    obs: Optional[Callable[[Any], Any]] = None
    replen: Optional[Callable[[Any, dict], int]] = None
    pdu: bool = False  # CFDP PDU: trailing octets may also be refused


ENTRIES: Dict[str, Entry] = {}


def reg(e: Entry):
    assert e.name not in ENTRIES
    ENTRIES[e.name] = e
    return e


def _hx(b) -> str:
    return bytes(b).hex()


def _just_raw(strategy_of_bytes, cfg=None):
    return strategy_of_bytes.map(lambda b: {"cfg": dict(cfg or {}), "raw": _hx(b)})


# ---- CCSDS ------------------------------------------------------------------------------------------


def _sp():
    from spacepackets.ccsds import spacepacket as sp

    return sp


def _obs_sp_header(h):
    from .props.c01 import obs_header

    o = obs_header(h)
    o["packet_len"] = int(h.packet_len)
    o["header_len"] = int(h.header_len)
    return o


def st_sp_header_bytes():
    return st.tuples(st.integers(0, 7), st.integers(0, 1), st.integers(0, 1), uint(11), st.integers(0, 3), uint(14), uint(16)).map(lambda t: RC.sp_header(*t))


reg(Entry("SpacePacketHeader.unpack", "ccsds", lambda b, c: _sp().SpacePacketHeader.unpack(b), lambda: _just_raw(st_sp_header_bytes()),
          head=lambda r, c: 6, obs=_obs_sp_header, replen=lambda o, c: int(o.header_len)))
reg(Entry("get_apid_from_raw_space_packet", "ccsds", lambda b, c: _sp().get_apid_from_raw_space_packet(b), lambda: _just_raw(st_sp_header_bytes()),
          head=lambda r, c: 6, obs=lambda x: int(x)))


def _st_space_packet():
    return st.tuples(st.integers(0, 7), st.integers(0, 1), st.integers(0, 1), uint(11), st.integers(0, 3), uint(14), st.binary(min_size=1, max_size=24)).map(
        lambda t: {"cfg": {}, "raw": _hx(RC.sp_header(t[0], t[1], t[2], t[3], t[4], t[5], len(t[6]) - 1) + t[6])}
    )


# a whole space packet decoded through its header: the reported length is the packet length (header + data field)
reg(Entry("SpacePacketHeader.unpack(packet)", "ccsds", lambda b, c: _sp().SpacePacketHeader.unpack(b), _st_space_packet, delimited=False, head=lambda r, c: 6, len_fields=lambda r, c: [(4, 2)],
          obs=_obs_sp_header, replen=lambda o, c: int(o.packet_len)))


def _st_sp_stream():
    """A stream of space packets plus the ids to look for (parse_space_packets never raises)."""
    pkt = st.tuples(uint(11), uint(14), hexblob(12, 1)).map(lambda t: RC.sp_header(0, 1, 1, t[0], 3, t[1], len(t[2]) // 2 - 1) + bytes.fromhex(t[2]))
    return st.lists(pkt, min_size=1, max_size=3).map(
        lambda ps: {"cfg": {"ids": sorted({int.from_bytes(p[:2], "big") & 0x1FFF for p in ps})}, "raw": _hx(b"".join(ps))}
    )


def _call_parser(b, c):
    from collections import deque

    sp = _sp()
    q = deque([bytearray(b)]) if c.get("one", True) else deque(bytearray([x]) for x in b)
    ids = tuple(sp.PacketId.from_raw(i) for i in c["ids"])
    return sp.parse_space_packets(q, ids)


reg(Entry("parse_space_packets", "ccsds", _call_parser, _st_sp_stream, cfg=lambda: st.fixed_dictionaries({"ids": st.lists(uint(13), min_size=1, max_size=3), "one": st.booleans()}),
          delimited=False, head=lambda r, c: min(len(r), 6), len_fields=lambda r, c: [(4, 2)]))


# ---- PUS ---------------------------------------------------------------------------------------------


def _tc():
    from spacepackets.ecss import tc

    return tc


def _tm():
    from spacepackets.ecss import tm

    return tm


def st_tc_valid():
    from .props.c02 import st_tc
    from .strategies import expand_fill

    return st_tc(big=()).map(lambda c: {"cfg": {}, "raw": _hx(RP.pus_tc(c["apid"], c["seq"], c["service"], c["subservice"], c["source_id"], c["ack"], expand_fill(c["app_data"])))})


def st_tm_valid(service=None):
    from .props.c03 import st_tm
    from .strategies import expand_fill

    def mk(c):
        ts = bytes.fromhex(c["timestamp"])
        raw = RP.pus_tm(c["apid"], c["seq"], c["service"], c["subservice"], c["msg_counter"], c["dest_id"], c["time_ref"], ts, expand_fill(c["source_data"]), ver=c["ver"])
        return {"cfg": {"ts": len(ts)}, "raw": _hx(raw)}

    return st_tm(big=(), service=service).map(mk)


def st_srv1_valid():
    from .props.c15 import st_report, want_source_data

    def mk(c):
        ts = bytes.fromhex(c["ts"])
        raw = RP.pus_tm(c["apid"], c["seq"], 1, c["sub"], 0, c["dest_id"], c["time_ref"], ts, want_source_data(c), ver=c["ver"])
        return {"cfg": {"ts": len(ts), "step": c["step"][0] if c["step"] else 1, "err": c["err"][0] if c["err"] else 1}, "raw": _hx(raw)}

    return st_report().map(mk)


def _obs_tc(x):
    from .props.c02 import obs_tc

    o = obs_tc(x)
    o["crc"] = None if x.crc16 is None else _hx(x.crc16)
    return o


def _obs_tm(x):
    from .props.c03 import obs_tm

    o = obs_tm(x)
    o["crc"] = None if x.crc16 is None else _hx(x.crc16)
    return o


def _obs_srv1(x):
    from .props.c15 import obs_report

    o = obs_report(x)
    o["tm"] = _obs_tm(x.pus_tm)
    return o


def _obs_srv17(x):
    return _obs_tm(x.pus_tm)


_ts_cfg = lambda: st.fixed_dictionaries({"ts": st.one_of(st.just(7), st.integers(0, 32))})  # noqa: E731

reg(Entry("PusTc.unpack", "pus", lambda b, c: _tc().PusTc.unpack(b), st_tc_valid, head=lambda r, c: 11, len_fields=lambda r, c: [(4, 2)], crc=patch_pus_crc,
          obs=_obs_tc, replen=lambda o, c: int(o.packet_len)))
reg(Entry("PusTcDataFieldHeader.unpack", "pus", lambda b, c: _tc().PusTcDataFieldHeader.unpack(b),
          lambda: _just_raw(st.tuples(st.integers(0, 15), uint(8), uint(8), uint(16)).map(lambda t: bytes([0x20 | t[0], t[1], t[2]]) + t[3].to_bytes(2, "big"))),
          head=lambda r, c: 5))
reg(Entry("PusTm.unpack", "pus", lambda b, c: _tm().PusTm.unpack(b, c["ts"]), st_tm_valid, cfg=_ts_cfg, head=lambda r, c: 13, len_fields=lambda r, c: [(4, 2)], crc=patch_pus_crc,
          obs=_obs_tm, replen=lambda o, c: int(o.packet_len)))
reg(Entry("PusTmSecondaryHeader.unpack", "pus", lambda b, c: _tm().PusTmSecondaryHeader.unpack(b, c["ts"]),
          lambda: st.integers(0, 16).flatmap(lambda n: st.tuples(st.integers(0, 15), uint(8), uint(8), uint(16), uint(16), st.binary(min_size=n, max_size=n)).map(
              lambda t: {"cfg": {"ts": n}, "raw": _hx(bytes([0x20 | t[0], t[1], t[2]]) + t[3].to_bytes(2, "big") + t[4].to_bytes(2, "big") + t[5])})),
          cfg=_ts_cfg, head=lambda r, c: 7))
reg(Entry("PusTm.service_from_bytes", "pus", lambda b, c: _tm().PusTm.service_from_bytes(bytearray(b) if c.get("ba") else b), st_tm_valid, cfg=lambda: st.fixed_dictionaries({"ba": st.booleans()}),
          delimited=False, head=lambda r, c: 8, obs=lambda x: int(x)))


def _call_srv1(b, c):
    from spacepackets.ecss import pus_1_verification as s1

    return s1.Service1Tm.unpack(b, s1.UnpackParams(c["ts"], c["step"], c["err"]))


def _call_srv17(b, c):
    from spacepackets.ecss.pus_17_test import Service17Tm

    return Service17Tm.unpack(b, c["ts"])


_w = st.sampled_from([1, 2, 4, 8])
reg(Entry("Service1Tm.unpack", "pus", _call_srv1, st_srv1_valid, cfg=lambda: st.fixed_dictionaries({"ts": st.one_of(st.just(7), st.integers(0, 16)), "step": _w, "err": _w}),
          head=lambda r, c: 13, len_fields=lambda r, c: [(4, 2)], crc=patch_pus_crc, obs=_obs_srv1, replen=lambda o, c: int(o.pus_tm.packet_len)))
reg(Entry("Service17Tm.unpack", "pus", _call_srv17, lambda: st_tm_valid(service=17), cfg=_ts_cfg, head=lambda r, c: 13, len_fields=lambda r, c: [(4, 2)], crc=patch_pus_crc,
          obs=_obs_srv17, replen=lambda o, c: int(o.pus_tm.packet_len)))


def _call_failure_notice(b, c):
    from spacepackets.ecss.pus_1_verification import FailureNotice

    return FailureNotice.unpack(b, c["err"], c.get("ndata"))


reg(Entry("FailureNotice.unpack", "pus", _call_failure_notice,
          lambda: st.tuples(_w, st.binary(max_size=16)).flatmap(lambda t: st.binary(min_size=t[0], max_size=t[0]).map(lambda code: {"cfg": {"err": t[0], "ndata": None}, "raw": _hx(code + t[1])})),
          cfg=lambda: st.fixed_dictionaries({"err": _w, "ndata": st.one_of(st.none(), st.integers(0, 16))}), delimited=False, head=lambda r, c: min(len(r), 8)))


def _call_check_pus_crc(b, c):
    from spacepackets.ecss import check_pus_crc

    return check_pus_crc(b)


reg(Entry("check_pus_crc", "pus", _call_check_pus_crc, st_tc_valid, delimited=False, head=lambda r, c: 6, len_fields=lambda r, c: [(4, 2)], crc=patch_pus_crc))


# ---- time, request id, fields ---------------------------------------------------------------------------


def _cds():
    from spacepackets.ccsds.time import CdsShortTimestamp

    return CdsShortTimestamp


def _st_cds():
    return _just_raw(st.tuples(uint(16), st.one_of(st.integers(0, 86_399_999), uint(32))).map(lambda t: b"\x40" + t[0].to_bytes(2, "big") + t[1].to_bytes(4, "big")))


def _obs_cds(x):
    return {"days": int(x.ccsds_days), "ms": int(x.ms_of_day), "packed": _hx(x.pack())}


def _call_cds_read(b, c):
    s = _cds().empty()
    s.read_from_raw(b)
    return s


reg(Entry("CdsShortTimestamp.unpack", "fields", lambda b, c: _cds().unpack(b), _st_cds, head=lambda r, c: 7, obs=_obs_cds, replen=lambda o, c: len(o.pack())))
reg(Entry("CdsShortTimestamp.read_from_raw", "fields", _call_cds_read, _st_cds, head=lambda r, c: 7, obs=_obs_cds, replen=lambda o, c: len(o.pack())))
reg(Entry("CdsShortTimestamp.unpack_from_raw", "fields", lambda b, c: _cds().unpack_from_raw(b), _st_cds, head=lambda r, c: 7, obs=lambda x: [int(x[0]), int(x[1])]))


def _req():
    from spacepackets.ecss.req_id import RequestId

    return RequestId


def _obs_req(x):
    return {"u32": int(x.as_u32()), "ver": int(x.ccsds_version), "pid": int(x.tc_packet_id.raw()), "psc": int(x.tc_psc.raw()), "packed": _hx(x.pack())}


reg(Entry("RequestId.unpack", "fields", lambda b, c: _req().unpack(b), lambda: _just_raw(uint(32).map(lambda v: v.to_bytes(4, "big"))), head=lambda r, c: 4, obs=_obs_req,
          replen=lambda o, c: len(o.pack())))


def _call_pfe(b, c):
    from spacepackets.ecss.fields import PacketFieldEnum

    return PacketFieldEnum.unpack(b, c["pfc"])


reg(Entry("PacketFieldEnum.unpack", "fields", _call_pfe, lambda: _w.flatmap(lambda n: st.binary(min_size=n, max_size=n).map(lambda b: {"cfg": {"pfc": 8 * n}, "raw": _hx(b)})),
          cfg=lambda: st.fixed_dictionaries({"pfc": st.sampled_from([8, 16, 32, 64])}), head=lambda r, c: len(r),
          obs=lambda x: {"pfc": int(x.pfc), "val": int(x.val), "packed": _hx(x.pack())}, replen=lambda o, c: int(o.len())))


def _util():
    from spacepackets import util

    return util


def _obs_field(x):
    return {"value": int(x.value), "width": int(x.byte_len), "bytes": _hx(x.as_bytes)}


reg(Entry("UnsignedByteField.from_bytes", "fields", lambda b, c: _util().UnsignedByteField.from_bytes(b),
          lambda: _w.flatmap(lambda n: _just_raw(st.binary(min_size=n, max_size=n))), delimited=False, head=lambda r, c: len(r)))  # whole-buffer decoder: not a self-delimiting unit, no obs
reg(Entry("ByteFieldGenerator.from_bytes", "fields", lambda b, c: _util().ByteFieldGenerator.from_bytes(c["w"], b),
          lambda: _w.flatmap(lambda n: st.binary(min_size=n, max_size=n).map(lambda b: {"cfg": {"w": n}, "raw": _hx(b)})),
          cfg=lambda: st.fixed_dictionaries({"w": _w}), head=lambda r, c: len(r), obs=_obs_field, replen=lambda o, c: int(o.byte_len)))
for _n, _cls, _fn in ((1, "ByteFieldU8", "from_u8_bytes"), (2, "ByteFieldU16", "from_u16_bytes"), (4, "ByteFieldU32", "from_u32_bytes"), (8, "ByteFieldU64", "from_u64_bytes")):
    reg(Entry(f"{_cls}.{_fn}", "fields", (lambda b, c, _cls=_cls, _fn=_fn: getattr(getattr(_util(), _cls), _fn)(b)),
              (lambda _n=_n: _just_raw(st.binary(min_size=_n, max_size=_n))), head=lambda r, c: len(r), obs=_obs_field, replen=lambda o, c: int(o.byte_len)))


# ---- CFDP header, PDUs, factory -------------------------------------------------------------------------


def _pdu_mod():
    from spacepackets.cfdp import pdu as P

    return P


def _hdr_mod():
    from spacepackets.cfdp.pdu import header as Hm

    return Hm


def _cfdp_head(raw, cfg):
    """Fixed header, variable header and the directive / first parameter octets."""
    if len(raw) < 4:
        return len(raw)
    hl = 4 + 2 * (((raw[3] >> 4) & 7) + 1) + ((raw[3] & 7) + 1)
    return min(len(raw), hl + 3)


def st_pdu_valid(kind=None, crc=None):
    cs = M.st_conf(segctrl=(kind == "filedata" or kind is None), crc=crc)
    s = M.st_any_pdu(small=True, conf_strategy=cs) if kind is None else M.st_pdu(kind, cs, small=True)
    return s.map(lambda p: {"cfg": {}, "raw": _hx(M.ref_pdu(p)), "kind": p["kind"], "crc": p["conf"]["crc"]})


def st_header_valid():
    def mk(t):
        c, ptype, segmeta, dlen = t
        return {"cfg": {}, "raw": _hx(R.header(c, ptype, c["dir"], segmeta if ptype else 0, dlen, segctrl=c["segctrl"]))}

    return st.tuples(M.st_conf(segctrl=True), st.integers(0, 1), st.integers(0, 1), uint(16)).map(mk)


def _obs_pdu_header(h):
    return M.obs_header(h)


reg(Entry("PduHeader.unpack", "cfdp_header", lambda b, c: _hdr_mod().PduHeader.unpack(b), st_header_valid, head=lambda r, c: len(r), len_fields=lambda r, c: [(1, 2)],
          obs=_obs_pdu_header, replen=lambda o, c: int(o.header_len)))
reg(Entry("AbstractPduBase.header_len_from_raw", "cfdp_header", lambda b, c: _hdr_mod().AbstractPduBase.header_len_from_raw(b), st_header_valid, delimited=False, head=lambda r, c: 4,
          obs=lambda x: int(x)))


def _call_directive_base(b, c):
    from spacepackets.cfdp.pdu.file_directive import FileDirectivePduBase

    return FileDirectivePduBase.unpack(b)


reg(Entry("FileDirectivePduBase.unpack", "cfdp_header", _call_directive_base, lambda: st_pdu_valid("prompt"), delimited=False, head=_cfdp_head, len_fields=lambda r, c: [(1, 2)],
          crc=patch_cfdp_crc))

PDU_CLASS_NAMES = {"eof": "EofPdu", "finished": "FinishedPdu", "ack": "AckPdu", "metadata": "MetadataPdu", "nak": "NakPdu", "prompt": "PromptPdu", "keepalive": "KeepAlivePdu", "filedata": "FileDataPdu"}
for _kind, _cn in PDU_CLASS_NAMES.items():
    reg(Entry(f"{_cn}.unpack", "cfdp_pdu", (lambda b, c, _cn=_cn: getattr(_pdu_mod(), _cn).unpack(b)), (lambda _kind=_kind: st_pdu_valid(_kind)), head=_cfdp_head,
              len_fields=lambda r, c: [(1, 2)], crc=patch_cfdp_crc, obs=(lambda x, _kind=_kind: M.obs_pdu(x, _kind)), replen=lambda o, c: int(o.packet_len), pdu=True))


def _factory():
    from spacepackets.cfdp.pdu.helper import PduFactory

    return PduFactory


def _obs_any_pdu(x):
    if x is None:
        return None
    P = _pdu_mod()
    for kind, cn in PDU_CLASS_NAMES.items():
        if type(x) is getattr(P, cn):
            return {"kind": kind, **M.obs_pdu(x, kind)}
    return {"kind": type(x).__name__}


def _factory_must_return_object(b, c):
    r = _factory().from_raw(b)
    return r


reg(Entry("PduFactory.from_raw", "cfdp_pdu", _factory_must_return_object, st_pdu_valid, head=_cfdp_head, len_fields=lambda r, c: [(1, 2)], crc=patch_cfdp_crc,
          obs=_obs_any_pdu, replen=lambda o, c: -1 if o is None else int(o.packet_len), pdu=True))
reg(Entry("PduFactory.from_raw_to_holder", "cfdp_pdu", lambda b, c: _factory().from_raw_to_holder(b), st_pdu_valid, head=_cfdp_head, len_fields=lambda r, c: [(1, 2)], crc=patch_cfdp_crc,
          obs=lambda h: _obs_any_pdu(h.pdu), replen=lambda o, c: -1 if o.pdu is None else int(o.packet_len), pdu=True))
reg(Entry("PduFactory.pdu_type", "cfdp_pdu", lambda b, c: _factory().pdu_type(b), st_pdu_valid, delimited=False, head=lambda r, c: 1, obs=lambda x: int(x)))
reg(Entry("PduFactory.is_file_directive", "cfdp_pdu", lambda b, c: _factory().is_file_directive(b), st_pdu_valid, delimited=False, head=lambda r, c: 1, obs=lambda x: bool(x)))
reg(Entry("PduFactory.pdu_directive_type", "cfdp_pdu", lambda b, c: _factory().pdu_directive_type(b), st_pdu_valid, delimited=False, head=_cfdp_head,
          obs=lambda x: None if x is None else int(x)))


# ---- LV, TLV, reserved messages -------------------------------------------------------------------------------


def _T():
    from spacepackets.cfdp import tlv as T

    return T


def _call_lv(b, c):
    from spacepackets.cfdp.lv import CfdpLv

    return CfdpLv.unpack(b)


reg(Entry("CfdpLv.unpack", "tlv", _call_lv, lambda: _just_raw(st.one_of(st.binary(max_size=24), st.binary(min_size=200, max_size=255)).map(R.lv)), head=lambda r, c: min(len(r), 3),
          len_fields=lambda r, c: [(0, 1)], obs=lambda x: {"value": _hx(x.value), "packed": _hx(x.pack()), "packet_len": int(x.packet_len)}, replen=lambda o, c: int(o.packet_len)))


def _call_fss(b, c):
    from spacepackets.cfdp.pdu.file_directive import DirectiveType, FileDirectivePduBase

    conf = M.build_conf({"crc": 0, "large": c["large"], "mode": 0, "dir": 0, "segctrl": 0, "idw": 1, "seqw": 1, "src": 1, "dst": 2, "seq": 3})
    base = FileDirectivePduBase(conf, DirectiveType.EOF_PDU, 0)
    return base.parse_fss_field(b, c["idx"])


def _st_fss_valid():
    def mk(t):
        large, idx, v, fill = t
        w = 8 if large else 4
        return {"cfg": {"large": large, "idx": idx}, "raw": _hx(bytes([fill]) * idx + (v & ((1 << (8 * w)) - 1)).to_bytes(w, "big"))}

    return st.tuples(st.sampled_from([0, 1]), st.integers(0, 12), st.one_of(uint(64), st.sampled_from([0, 1, 0xFFFFFFFF, 0x100000000, (1 << 64) - 1])), uint(8)).map(mk)


# the public helper that reads the file-size-sensitive field (4 octets, 8 with the large file flag) at a given index
reg(Entry("FileDirectivePduBase.parse_fss_field", "cfdp_header", _call_fss, _st_fss_valid,
          cfg=lambda: st.fixed_dictionaries({"large": st.sampled_from([0, 1]), "idx": st.integers(0, 12)}), head=lambda r, c: len(r),
          obs=lambda o: {"next": int(o[0]), "size": int(o[1])}, replen=lambda o, c: int(o[0])))


def st_generic_tlv():
    return st.tuples(st.sampled_from([0, 1, 2, 4, 5, 6]), st.one_of(st.binary(max_size=24), st.binary(min_size=200, max_size=255))).map(lambda t: R.tlv(t[0], t[1]))


reg(Entry("CfdpTlv.unpack", "tlv", lambda b, c: _T().CfdpTlv.unpack(b), lambda: _just_raw(st_generic_tlv()), head=lambda r, c: min(len(r), 4), len_fields=lambda r, c: [(1, 1)],
          obs=M.obs_tlv, replen=lambda o, c: int(o.packet_len)))

CONCRETE_TLV = {"entity": ("EntityIdTlv", M.st_entity_tlv), "flow": ("FlowLabelTlv", lambda: M.st_flow_tlv(40)), "fault": ("FaultHandlerOverrideTlv", M.st_fault_tlv),
                "fsreq": ("FileStoreRequestTlv", lambda: M.st_fsreq_tlv(24)), "fsresp": ("FileStoreResponseTlv", lambda: M.st_fsresp_tlv(24, 12)), "msg": ("MessageToUserTlv", lambda: M.st_msg_tlv(40))}


def _obs_concrete_tlv(kind):
    def f(x):
        from .props.c08 import obs_concrete

        return obs_concrete(x, kind)

    return f


for _k, (_cn, _s) in CONCRETE_TLV.items():
    reg(Entry(f"{_cn}.unpack", "tlv", (lambda b, c, _cn=_cn: getattr(_T(), _cn).unpack(b)), (lambda _s=_s: _s().map(lambda d: {"cfg": {}, "raw": _hx(R.tlv_bytes(d))})),
              head=lambda r, c: min(len(r), 6), len_fields=lambda r, c: [(1, 1)], obs=_obs_concrete_tlv(_k), replen=lambda o, c: int(o.packet_len)))


RESERVED_GETTERS = (
    "get_originating_transaction_id", "get_proxy_put_request_params", "get_proxy_put_response_params", "get_proxy_closure_requested",
    "get_proxy_transmission_mode", "get_dir_listing_request_params", "get_dir_listing_response_params", "get_dir_listing_options",
)


def _call_reserved(b, c):
    """Message-to-user TLV -> reserved-message view -> every parser."""
    T = _T()
    m = T.MessageToUserTlv.unpack(b)
    if not m.is_reserved_cfdp_message():
        return ("not reserved",)
    r = m.to_reserved_msg_tlv()
    if r is None:
        return ("not reserved",)
    out = [repr(r.get_reserved_cfdp_message_type()) if hasattr(r, "get_reserved_cfdp_message_type") else None]
    for nm in ("is_cfdp_proxy_operation", "is_directory_operation", "is_originating_transaction_id", "get_cfdp_proxy_message_type", "get_directory_operation_type"):
        if hasattr(r, nm):
            out.append(repr(getattr(r, nm)()))
    for g in RESERVED_GETTERS:
        out.append(repr(getattr(r, g)()))
    return tuple(out)


def st_reserved_valid():
    from .props.c18 import st_msg

    return st_msg().map(lambda m: {"cfg": {}, "raw": _hx(R.reserved_tlv(m))})


reg(Entry("ReservedCfdpMessage.parsers", "tlv", _call_reserved, st_reserved_valid, delimited=True, head=lambda r, c: min(len(r), 10), len_fields=lambda r, c: [(1, 1)], obs=lambda x: list(x)))


# ---- USLP ----------------------------------------------------------------------------------------------------


def _uslp():
    from spacepackets.uslp import frame as F
    from spacepackets.uslp import header as H

    return H, F


def _st_uslp_header():
    from .props.c17 import st_header
    from .ref import uslp as RU

    return st_header().map(lambda c: {"cfg": {}, "raw": _hx(RU.primary_header(c["scid"], c["src_dest"], c["vcid"], c["map_id"], c["frame_len"], c["bypass"], c["prot_cmd"], c["ocf_flag"], c["vcf_len"], c["vcf_count"]))})


def _st_uslp_trunc_header():
    from .ref import uslp as RU

    return st.tuples(uint(16), st.integers(0, 1), uint(6), uint(4)).map(lambda t: {"cfg": {}, "raw": _hx(RU.truncated_header(*t))})


def _obs_uslp_header(h):
    from .props.c17 import obs_header

    return obs_header(h)


reg(Entry("PrimaryHeader.unpack", "uslp", lambda b, c: _uslp()[0].PrimaryHeader.unpack(b), _st_uslp_header, head=lambda r, c: len(r), obs=_obs_uslp_header, replen=lambda o, c: int(o.len())))
reg(Entry("TruncatedPrimaryHeader.unpack", "uslp", lambda b, c: _uslp()[0].TruncatedPrimaryHeader.unpack(b), _st_uslp_trunc_header, head=lambda r, c: len(r), obs=_obs_uslp_header,
          replen=lambda o, c: int(o.len())))
reg(Entry("determine_header_type", "uslp", lambda b, c: _uslp()[0].determine_header_type(b), _st_uslp_trunc_header, head=lambda r, c: len(r), obs=lambda x: int(x.value) if hasattr(x, "value") else int(x)))


def _frame_type(F, c):
    return F.FrameType.FIXED if c["ft"] == "fixed" else F.FrameType.VARIABLE


def _frame_props(F, c):
    # a size may be configured for a field that is switched off (then it is irrelevant); the class of the managed-parameter object is
    # the one belonging to the frame type unless "pc" says otherwise (the signature accepts either)
    kw = dict(has_insert_zone=c["iz"] is not None, has_fecf=c["fecf"] is not None, insert_zone_len=c["iz"] if c["iz"] is not None else c.get("iz_off"),
              fecf_len=c["fecf"] if c["fecf"] is not None else c.get("fecf_off"))
    if c.get("pc", c["ft"]) == "fixed":
        return F.FixedFrameProperties(fixed_len=c["n"], **kw)
    return F.VarFrameProperties(truncated_frame_len=c["n"], **kw)


def _call_frame(b, c):
    H, F = _uslp()
    return F.TransferFrame.unpack(b, _frame_type(F, c), _frame_props(F, c))


def _st_frame_valid():
    from .props.c17 import ref_frame, st_frame

    def mk(c):
        hc = dict(c["hdr"])
        hc["ocf_flag"] = int(c["ocf"] is not None)
        trunc = c["kind"] == "truncated"
        size = (4 if trunc else 7 + hc["vcf_len"]) + (len(c["insert_zone"]) // 2 if c["insert_zone"] else 0) + 1 + (2 if c["pointer"] is not None else 0) + len(c["tfdz"]) // 2 \
            + (4 if c["ocf"] else 0) + (len(c["fecf"]) // 2 if c["fecf"] else 0)
        raw = ref_frame(c, hc, size - 1)
        cfg = {"ft": "fixed" if c["kind"] == "fixed" else "variable", "iz": None if c["insert_zone"] is None else len(c["insert_zone"]) // 2,
               "fecf": None if c["fecf"] is None else len(c["fecf"]) // 2, "n": len(raw)}
        if c["insert_zone"] is None and len(raw) % 2:
            cfg["iz_off"] = 4
        if c["fecf"] is None and len(raw) % 3 == 0:
            cfg["fecf_off"] = 2
        return {"cfg": cfg, "raw": _hx(raw), "kind": c["kind"]}

    return st_frame().map(mk)


def _obs_frame(f):
    from .props.c17 import obs_frame

    return obs_frame(f)


_frame_cfg = lambda: st.fixed_dictionaries(  # noqa: E731
    {"ft": st.sampled_from(["fixed", "variable"]), "iz": st.one_of(st.none(), st.integers(1, 8)), "fecf": st.one_of(st.none(), st.sampled_from([2, 4])), "n": st.integers(1, 80),
     "pc": st.sampled_from(["fixed", "variable"]), "iz_off": st.sampled_from([None, 4]), "fecf_off": st.sampled_from([None, 2])}
)
reg(Entry("TransferFrame.unpack", "uslp", _call_frame, _st_frame_valid, cfg=_frame_cfg, head=lambda r, c: min(len(r), 16), len_fields=lambda r, c: [(4, 2)], obs=_obs_frame,
          replen=lambda o, c: int(o.len())))


def _call_tfdf(b, c):
    H, F = _uslp()
    ft = None if c["ft"] is None else _frame_type(F, c)
    return F.TransferFrameDataField.unpack(b, c["trunc"], c["exact"] if c["exact"] is not None else len(b), ft)


def _st_tfdf_valid():
    from .props.c17 import FP_RULES, UPIDS, VP_RULES
    from .ref import uslp as RU

    def mk(t):
        kind, upid, pointer, tfdz = t
        rule_fixed = kind == "fixed"
        def one(rule_exact):
            rule, exact_mode = rule_exact
            raw = RU.tfdf_header(rule, upid, pointer if rule_fixed else None) + tfdz
            # the caller states the TFDF length explicitly (as the frame decoder does) or lets it default to the buffer length
            exact = {0: None, 1: len(raw), 2: len(raw) + 7}[exact_mode]
            return {"cfg": {"ft": "fixed" if rule_fixed else "variable", "trunc": kind == "truncated", "exact": exact}, "raw": _hx(raw)}

        return st.tuples(st.sampled_from(FP_RULES if rule_fixed else VP_RULES), st.sampled_from([0, 1, 1, 2])).map(one)

    return st.tuples(st.sampled_from(["fixed", "variable", "truncated"]), st.sampled_from(UPIDS), uint(16), st.binary(max_size=24)).flatmap(mk)


reg(Entry("TransferFrameDataField.unpack", "uslp", _call_tfdf, _st_tfdf_valid,
          cfg=lambda: st.fixed_dictionaries({"ft": st.sampled_from(["fixed", "variable", None]), "trunc": st.sampled_from([False, True]), "exact": st.one_of(st.none(), st.integers(0, 40))}),
          delimited=False, head=lambda r, c: min(len(r), 3)))


FAMILIES = ("ccsds", "pus", "fields", "cfdp_header", "cfdp_pdu", "tlv", "uslp")


def by_family(fam):
    return [e for e in ENTRIES.values() if e.family == fam]
