"""Shared generators.  Every strategy yields plain data (ints, hex strings, lists, dicts)."""
from __future__ import annotations

from hypothesis import strategies as st


def boundary_values(bits: int):
    mx = (1 << bits) - 1
    vals = {0, 1, 2, mx, mx - 1}
    for k in range(1, bits + 1):
        if k % 8 == 0 or k in (bits - 1, bits) or k in (4, 7, 10, 11, 13, 14):
            for v in ((1 << k) - 1, 1 << k, (1 << k) + 1, 1 << (k - 1)):
                if 0 <= v <= mx:
                    vals.add(v)
    # alternating bit patterns expose swapped / dropped octets
    if bits >= 8:
        vals.add(int("a5" * (bits // 8 + 1), 16) & mx)
        vals.add(int("0102030405060708"[: 2 * ((bits + 7) // 8)] or "0", 16) & mx)
    return sorted(v for v in vals if 0 <= v <= mx)


def uint(bits: int):
    """Unsigned integer of ``bits`` bits, ~50 % weight on boundary values."""
    if bits == 0:
        return st.just(0)
    mx = (1 << bits) - 1
    return st.one_of(st.sampled_from(boundary_values(bits)), st.integers(0, mx))


def hexblob(max_size: int = 64, min_size: int = 0):
    """Octet string as hex text."""
    small = st.binary(min_size=min_size, max_size=max(min_size, min(16, max_size)))
    wide = st.binary(min_size=min_size, max_size=max_size)
    return st.one_of(small, wide).map(lambda b: b.hex())


def fillblob(length: int):
    """A long octet string described compactly: (length, fill pattern)."""
    return st.fixed_dictionaries({"len": st.just(length), "fill": st.integers(0, 255), "step": st.integers(0, 3)})


def expand_fill(d) -> bytes:
    if isinstance(d, str):
        return bytes.fromhex(d)
    n, fill, step = d["len"], d["fill"], d["step"]
    if step == 0:
        return bytes([fill]) * n
    return bytes((fill + i * step) & 0xFF for i in range(n))


def data_field(sizes_small=64, big=()):
    """Either a hex blob (small) or a compact long blob with one of the ``big`` lengths."""
    if not big:
        return hexblob(sizes_small)
    return st.one_of(
        hexblob(sizes_small),
        hexblob(sizes_small),
        hexblob(sizes_small),
        st.sampled_from(list(big)).flatmap(fillblob),
    )


_ALPHABETS = [
    "abcdefghijklmnopqrstuvwxyz/._-0123456789ABCXYZ ~",
    "äöüßéèñÅ©®µ¿",
    "€漢字→✓",
    "𝄞😀🚀",
    "e\u0301\u0308\u0323a\u200d\ufeff\u00a0",  # combining marks, zero-width joiner, BOM, no-break space: text that changes under normalisation / stripping
]


def name(max_octets: int = 40, min_chars: int = 0):
    """Text whose UTF-8 encoding has at most ``max_octets`` octets (characters != octets)."""

    def clip(s):
        while len(s.encode()) > max_octets:
            s = s[:-1]
        return s

    alpha = st.one_of(
        st.sampled_from(_ALPHABETS[0]),
        st.sampled_from(_ALPHABETS[0]),
        st.sampled_from(_ALPHABETS[1]),
        st.sampled_from(_ALPHABETS[2]),
        st.sampled_from(_ALPHABETS[3]),
        st.sampled_from(_ALPHABETS[4]),
    )
    return st.text(alphabet=alpha, min_size=min_chars, max_size=max_octets).map(clip)


def h(b) -> str:
    return bytes(b).hex()


def unh(s) -> bytes:
    return bytes.fromhex(s)
