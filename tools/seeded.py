#!/usr/bin/env python3
"""Seeded changes (independently written by sub-agents): confirm and evaluate.

  /venv/bin/python tools/seeded.py import  /tmp/seed            # copy <Cnn>.out/<v>/ into seeded/<Cnn>-<v>/
  /venv/bin/python tools/seeded.py verify  [name-regex] [--jobs N] [--thorough-if-missed] [--also C09,C10]

``verify`` works in a scratch git worktree of /repo's HEAD (outside /repo and /verif, removed
afterwards): demo on the pristine tree must pass; with the patch applied the repository's test
suite must pass and the demo must fail; then the property's check is aimed at the scratch tree
(VERIF_REPO) and must report a violation.  Results are written to seeded/<name>/meta.json and
summarised in SEEDED.md.
"""
from __future__ import annotations

import argparse
import concurrent.futures as cf
import json
import os
import re
import shutil
import subprocess
import sys
import tempfile
import time

HERE = os.path.dirname(os.path.dirname(os.path.abspath(__file__)))
REPO = "/repo"
SEEDED = os.path.join(HERE, "seeded")
PY = "/venv/bin/python"


def sh(cmd, cwd=None, env=None, timeout=3600):
    e = dict(os.environ, PYTHONDONTWRITEBYTECODE="1")
    e.update(env or {})
    return subprocess.run(cmd, cwd=cwd, env=e, capture_output=True, text=True, timeout=timeout)


def do_import(src):
    n = 0
    for d in sorted(os.listdir(src)):
        m = re.fullmatch(r"(C\d\d)\.out\d*", d)
        if not m:
            continue
        for v in sorted(os.listdir(os.path.join(src, d))):
            vd = os.path.join(src, d, v)
            if not os.path.isfile(os.path.join(vd, "patch.diff")):
                continue
            dst = os.path.join(SEEDED, f"{m.group(1)}-{v}")
            if os.path.exists(os.path.join(dst, "meta.json")):
                continue  # already imported and evaluated (some patches were rebased onto later fixes of /repo: see REBASED.txt)
            os.makedirs(dst, exist_ok=True)
            for f in ("patch.diff", "demo.py", "notes.md"):
                if os.path.exists(os.path.join(vd, f)):
                    shutil.copy(os.path.join(vd, f), os.path.join(dst, f))
            n += 1
    print(f"imported {n} seeded changes into {SEEDED}")


def verify_one(name, thorough_if_missed, also):
    d = os.path.join(SEEDED, name)
    prop = name.split("-")[0]
    wt = tempfile.mkdtemp(prefix=f"verif-seed-{name}-")
    os.rmdir(wt)
    rec = {"name": name, "property": prop, "ran": [], "confirmed": False}
    t0 = time.time()
    try:
        r = sh(["git", "-C", REPO, "worktree", "add", "-q", "--detach", wt, "HEAD"])
        if r.returncode:
            raise RuntimeError(r.stderr)
        rec["repo_head"] = sh(["git", "-C", REPO, "rev-parse", "--short", "HEAD"]).stdout.strip()
        demo = os.path.join(d, "demo.py")
        r0 = sh([PY, "-B", demo], cwd=wt)
        rec["ran"].append(f"demo on pristine worktree: exit {r0.returncode}")
        ra = sh(["git", "-C", wt, "apply", os.path.join(d, "patch.diff")])
        if ra.returncode:
            rec["ran"].append("patch does not apply: " + ra.stderr[-300:])
            return rec
        rt = sh([PY, "-B", "-m", "pytest", "-q", "-p", "no:cacheprovider", "--timeout=900"], cwd=wt)
        if rt.returncode != 0:
            # the repository suite has a timing-dependent test (countdown) that fails now and then on a loaded machine: once more
            first_tail = (rt.stdout.strip().splitlines() or [""])[-1]
            rt = sh([PY, "-B", "-m", "pytest", "-q", "-p", "no:cacheprovider", "--timeout=900"], cwd=wt)
            rec["ran"].append(f"repository test suite with the patch, first attempt: {first_tail}")
        tail = (rt.stdout.strip().splitlines() or [""])[-1]
        rec["ran"].append(f"repository test suite with the patch: exit {rt.returncode} ({tail})")
        r1 = sh([PY, "-B", demo], cwd=wt)
        rec["ran"].append(f"demo with the patch: exit {r1.returncode}")
        rec["confirmed"] = r0.returncode == 0 and rt.returncode == 0 and r1.returncode != 0
        rec["checks"] = {}
        for p in [prop] + [a for a in also if a != prop]:
            for tier in ("quick", "thorough"):
                if tier == "thorough" and (not thorough_if_missed or p != prop or rec["checks"].get(f"{p}.quick", {}).get("exit") == 1):
                    continue
                t1 = time.time()
                rc = sh([os.path.join(HERE, "check"), p, tier], env={"VERIF_REPO": wt, "VERIF_SEED": os.environ.get("VERIF_SEED", "1")}, timeout=7200)
                sigs = re.findall(r"signature: (\S+)", rc.stdout)
                rec["checks"][f"{p}.{tier}"] = {"exit": rc.returncode, "signatures": sigs[:8], "n_signatures": len(sigs), "wall_s": round(time.time() - t1, 1),
                                                "stderr": rc.stderr[-400:] if rc.returncode == 2 else ""}
                rec["ran"].append(f"VERIF_REPO=<scratch worktree> ./check {p} {tier}: exit {rc.returncode}, {len(sigs)} signature(s)")
        own = [k for k, v in rec["checks"].items() if k.startswith(prop + ".") and v["exit"] == 1]
        rec["caught_by"] = own[0] if own else None
        rec["also_caught_by"] = [k for k, v in rec["checks"].items() if not k.startswith(prop + ".") and v["exit"] == 1]
        return rec
    finally:
        sh(["git", "-C", REPO, "worktree", "remove", "--force", wt])
        shutil.rmtree(wt, ignore_errors=True)
        rec["wall_s"] = round(time.time() - t0, 1)
        # replays written by the run against the seeded tree are not evidence about /repo
        notes = os.path.join(d, "notes.md")
        needs = ""
        if os.path.exists(notes):
            needs = " ".join(open(notes).read().split())[:700]
        meta = {"breaks_property": prop, "needs_to_manifest": needs, "what_was_run": rec["ran"], "confirmed_breaks_and_passes_suite": rec["confirmed"],
                "caught_by": rec.get("caught_by"), "also_caught_by": rec.get("also_caught_by", []), "checks": rec.get("checks", {}), "repo_head": rec.get("repo_head"),
                "source": "written by an independent sub-agent given only the property text and a scratch worktree"}
        with open(os.path.join(d, "meta.json"), "w") as f:
            json.dump(meta, f, indent=1)
            f.write("\n")


def write_summary():
    rows = []
    for name in sorted(os.listdir(SEEDED)):
        mp = os.path.join(SEEDED, name, "meta.json")
        if not os.path.exists(mp):
            continue
        m = json.load(open(mp))
        sig = ""
        if m.get("caught_by"):
            sig = ", ".join(m["checks"][m["caught_by"]]["signatures"][:2])
        rows.append((name, "yes" if m["confirmed_breaks_and_passes_suite"] else "NO", m.get("caught_by") or "MISSED", ",".join(m.get("also_caught_by") or []), sig))
    with open(os.path.join(HERE, "SEEDED.md"), "w") as f:
        f.write("# Seeded changes (written by independent sub-agents) versus the checks\n\n")
        f.write("`confirmed` = demo passes on pristine, repository suite passes with the patch, demo fails with the patch (all re-run by tools/seeded.py in a scratch worktree).\n\n")
        f.write("| change | confirmed | caught by | also caught by | first signatures |\n|---|---|---|---|---|\n")
        for r in rows:
            f.write("| " + " | ".join(r) + " |\n")
    caught = sum(1 for r in rows if r[2] != "MISSED" and r[1] == "yes")
    neighbour = sum(1 for r in rows if r[2] == "MISSED" and r[3] and r[1] == "yes")
    with open(os.path.join(HERE, "SEEDED.md"), "a") as f:
        f.write(f"\n{len(rows)} changes, {sum(1 for r in rows if r[1] == 'yes')} confirmed; {caught} caught by the check of the property they were written against, "
                f"{neighbour} more only by the check of a neighbouring property (column 'also caught by'), {len(rows) - caught - neighbour} not caught (see DESIGN.md 8.3 for why).\n")
    print(f"SEEDED.md: {len(rows)} changes, {sum(1 for r in rows if r[1] == 'yes')} confirmed, {caught} caught by own property, {neighbour} by a neighbour only")


def main():
    ap = argparse.ArgumentParser()
    ap.add_argument("cmd", choices=["import", "verify", "summary"])
    ap.add_argument("arg", nargs="?")
    ap.add_argument("--jobs", type=int, default=4)
    ap.add_argument("--thorough-if-missed", action="store_true")
    ap.add_argument("--also", default="")
    a = ap.parse_args()
    if a.cmd == "import":
        do_import(a.arg or "/tmp/seed")
        return
    if a.cmd == "verify":
        names = [n for n in sorted(os.listdir(SEEDED)) if os.path.isdir(os.path.join(SEEDED, n)) and (a.arg is None or re.search(a.arg, n))]
        also = [x for x in a.also.split(",") if x]
        with cf.ThreadPoolExecutor(a.jobs) as ex:
            for rec in ex.map(lambda n: verify_one(n, a.thorough_if_missed, also), names):
                print(f"{rec['name']:<10} confirmed={rec['confirmed']!s:<5} caught_by={rec.get('caught_by')} also={rec.get('also_caught_by')} {rec['wall_s']}s")
                for line in rec["ran"]:
                    print("    " + line)
    write_summary()


if __name__ == "__main__":
    main()
