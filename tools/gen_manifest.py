#!/usr/bin/env python3
"""Regenerates MANIFEST.json from the table below and validates it against the schema.

Run:  python3-vt tools/gen_manifest.py
"""
import json
import os
import sys

HERE = os.path.dirname(os.path.dirname(os.path.abspath(__file__)))

BASELINE_CMD = "cd /repo && /venv/bin/python -m pytest -ra -q -p no:cacheprovider --timeout=900 --continue-on-collection-errors"

# id -> (level, technique, level text, level note, design section)
CHECKS = {}


def add(pid, level, technique, text, note, ref):
    CHECKS[pid] = (level, technique, text, note, ref)


sys.path.insert(0, HERE)
from tools.manifest_table import TABLE, NOT_YET  # noqa: E402

for row in TABLE:
    add(*row)

manifest = {
    "version": 1,
    "setup_cmd": "./setup.sh",
    "hooks": {
        "guard": "SPACEPACKETS_VERIF",
        "enable": "none needed: the library is pure Python and every observable is reachable through its public API; checks import /repo's working tree directly (VERIF_REPO, default /repo)",
        "baseline_off_cmd": BASELINE_CMD,
        "source_commits": [],
        "add_only": True,
    },
    "engines": [
        {
            "name": "vf",
            "path": "vf/",
            "serves_properties": sorted(CHECKS),
            "kind_free_text": "property-based testing: Hypothesis @given and rule-based state machines, exhaustive enumeration of finite sub-domains, atheris coverage-guided fuzzing; oracles = independent reference codecs, round trips, metamorphic relations, reference state machines; collect-bucket-shrink engine with JSON replay files",
        }
    ],
    "checks": [],
    "not_applicable": [{"property_id": p, "reason": r} for p, r in sorted(NOT_YET.items()) if p not in CHECKS],
    "notes": "exit codes of ./check: 0 held, 1 VIOLATION line(s), 2 harness error (never a VIOLATION). VERIF_SEED and VERIF_TIER honoured. Known findings: KNOWN_FINDINGS.txt.",
}
for pid in sorted(CHECKS):
    level, technique, text, note, ref = CHECKS[pid]
    manifest["checks"].append(
        {
            "property_id": pid,
            "quick_cmd": f"./check {pid} quick",
            "thorough_cmd": f"./check {pid} thorough",
            "evidence_file": f"evidence/{pid}.json",
            "replay_cmd_template": f"./check {pid} --replay {{path}}",
            "engine": "vf",
            "level_claimed": {"category": level, "text": text, "design_ref": ref},
            "level_note": note,
            "technique": technique,
        }
    )

out = os.path.join(HERE, "MANIFEST.json")
with open(out, "w") as f:
    json.dump(manifest, f, indent=1)
    f.write("\n")

try:
    import jsonschema

    schema = json.load(open("/root/.vp/MANIFEST.schema.json"))
    jsonschema.validate(manifest, schema)
    ids = {json.loads(l)["id"] for l in open(os.path.join(HERE, "properties.jsonl"))}
    covered = set(CHECKS) | {x["property_id"] for x in manifest["not_applicable"]}
    assert covered == ids, (ids - covered, covered - ids)
    print(f"MANIFEST.json valid: {len(CHECKS)} checks, {len(manifest['not_applicable'])} not_applicable")
except ImportError:
    print("jsonschema not importable; wrote MANIFEST.json unvalidated")
