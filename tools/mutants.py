#!/usr/bin/env python3
"""Sensitivity harness: apply realistic single-edit mutants to a scratch copy of /repo and run
the property's check against it (VERIF_REPO=<scratch>).

  /venv/bin/python tools/mutants.py C01 [--tier quick] [--tests] [--only name-regex] [--jobs 4]

Each mutant spec (tools/mutants/<id>.json) is {name, file, old, new, expect: fail|pass, count?}.
``expect: pass`` marks an equivalent-mutant control that must NOT fire.  Scratch copies live under
$TMPDIR/verif-mut-* and are removed immediately.  Results are appended to SENSITIVITY.md by
``--write``.
"""
from __future__ import annotations

import argparse
import concurrent.futures as cf
import json
import os
import re
import shutil
import subprocess
import sys
import tempfile
import time

HERE = os.path.dirname(os.path.dirname(os.path.abspath(__file__)))
REPO = "/repo"


def make_copy():
    d = tempfile.mkdtemp(prefix="verif-mut-")
    for item in ("spacepackets", "tests", "pytest.ini", "pyproject.toml", "README.md", "docs"):
        src = os.path.join(REPO, item)
        if os.path.isdir(src):
            shutil.copytree(src, os.path.join(d, item), ignore=shutil.ignore_patterns("__pycache__", "*.pyc"))
        elif os.path.exists(src):
            shutil.copy(src, d)
    return d


def apply(d, m):
    path = os.path.join(d, m["file"])
    s = open(path).read()
    cnt = s.count(m["old"])
    want = m.get("count", 1)
    if cnt != want:
        raise RuntimeError(f"mutant {m['name']}: pattern occurs {cnt}x in {m['file']}, expected {want}")
    s = s.replace(m["old"], m["new"])
    open(path, "w").write(s)


def run_one(prop, m, tier, tests, seed):
    d = make_copy()
    t0 = time.time()
    try:
        edits = m.get("edits") or [m]
        for e in edits:
            apply(d, {**m, **e})
        suite = None
        if tests:
            r = subprocess.run(
                ["/venv/bin/python", "-B", "-m", "pytest", "-q", "-x", "-p", "no:cacheprovider", "--timeout=900"],
                cwd=d, capture_output=True, text=True, env={**os.environ, "PYTHONDONTWRITEBYTECODE": "1"},
            )
            suite = "pass" if r.returncode == 0 else "FAIL"
        env = {**os.environ, "VERIF_REPO": d, "VERIF_SEED": str(seed)}
        r = subprocess.run([os.path.join(HERE, "check"), prop, tier], capture_output=True, text=True, env=env)
        sigs = re.findall(r"signature: (\S+)", r.stdout)
        return {"name": m["name"], "expect": m.get("expect", "fail"), "exit": r.returncode, "suite": suite,
                "sigs": sigs[:6], "nsigs": len(sigs), "wall": round(time.time() - t0, 1),
                "stderr": r.stderr[-600:] if r.returncode == 2 else ""}
    finally:
        shutil.rmtree(d, ignore_errors=True)


def main():
    ap = argparse.ArgumentParser()
    ap.add_argument("props", nargs="+")
    ap.add_argument("--tier", default="quick")
    ap.add_argument("--tests", action="store_true", help="also run the repository suite on each mutant")
    ap.add_argument("--only")
    ap.add_argument("--jobs", type=int, default=3)
    ap.add_argument("--seed", type=int, default=1)
    ap.add_argument("--write", action="store_true")
    a = ap.parse_args()
    bad = 0
    lines = []
    for prop in a.props:
        specs = json.load(open(os.path.join(HERE, "tools", "mutants", f"{prop}.json")))
        if a.only:
            specs = [m for m in specs if re.search(a.only, m["name"])]
        with cf.ThreadPoolExecutor(a.jobs) as ex:
            results = list(ex.map(lambda m: run_one(prop, m, a.tier, a.tests, a.seed), specs))
        for r in results:
            want_exit = 1 if r["expect"] == "fail" else 0
            ok = r["exit"] == want_exit
            bad += 0 if ok else 1
            verdict = ("caught" if r["exit"] == 1 else "quiet" if r["exit"] == 0 else "HARNESS-ERROR") + ("" if ok else "  <-- UNEXPECTED")
            suite = f" suite={r['suite']}" if r["suite"] else ""
            line = f"{prop} {r['name']:<44} expect={r['expect']:<4} {verdict:<10}{suite} {r['wall']}s {','.join(r['sigs'][:3])}{'...' if r['nsigs'] > 3 else ''}"
            print(line)
            if r["stderr"]:
                print(r["stderr"])
            lines.append(line)
    if a.write:
        with open(os.path.join(HERE, "SENSITIVITY.md"), "a") as f:
            f.write(f"\n## run {time.strftime('%Y-%m-%d %H:%M')} tier={a.tier} seed={a.seed} props={' '.join(a.props)}\n\n```\n")
            f.write("\n".join(lines) + "\n```\n")
    sys.exit(1 if bad else 0)


if __name__ == "__main__":
    main()
