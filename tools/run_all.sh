#!/bin/bash
# Run every property's check (default tier: quick) against /repo and refresh evidence/*.json.
#   tools/run_all.sh [quick|thorough] [seed]
cd "$(dirname "$0")/.." || exit 2
tier="${1:-quick}"; seed="${2:-1}"; rc=0
for p in C01 C02 C03 C04 C05 C06 C07 C08 C09 C10 C11 C12 C13 C14 C15 C16 C17 C18 C19 C20; do
  out=$(VERIF_SEED=$seed ./check $p $tier 2>&1); e=$?
  echo "$p exit=$e $(echo "$out" | grep -E '^\[C' | tail -1)"
  if [ $e -ne 0 ]; then rc=1; echo "$out" | grep -E "VIOLATION|HARNESS|signature" | head -10; fi
done
exit $rc
