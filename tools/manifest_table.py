"""Per-property manifest entries: (id, level, technique, level text, level note, DESIGN section)."""

ORACLE_NOTE = (
    "trusted base: the hand-written reference codecs in vf/ref (pinned by vf/ref/selftest.py to vectors not "
    "produced by them), Python int/bytes arithmetic, Hypothesis' generators; generated-input search never "
    "establishes absence - the evidence file says how many cases, how many non-trivial, which sub-domains were exhaustive"
)

TABLE = [
    (
        "C20",
        "exploration",
        "property-based testing (Hypothesis @given) + exhaustive enumeration of widths 0/1/2 against an int.to_bytes oracle",
        "every (width,value) pair for widths 0,1,2 enumerated; widths 4/8 sampled boundary-weighted over the full range; "
        "equality/hash iff-relation on generated pairs; refusals; assignment sequences; conversion helpers vs two's-complement",
        ORACLE_NOTE,
        "DESIGN.md section 4 C20",
    ),
]

_PENDING = "check not implemented yet in this round (planned in DESIGN.md section 4); will be claimed once its check exists"
NOT_YET = {f"C{i:02d}": _PENDING for i in range(1, 21)}
