"""Per-property manifest entries: (id, level, technique, level text, level note, DESIGN section)."""

ORACLE_NOTE = (
    "trusted base: the hand-written reference codecs in vf/ref (pinned by vf/ref/selftest.py to vectors not "
    "produced by them), Python int/bytes arithmetic, Hypothesis' generators; generated-input search never "
    "establishes absence - the evidence file says how many cases, how many non-trivial, which sub-domains were exhaustive"
)

PBT = "property-based testing (Hypothesis @given, collect-bucket-shrink)"
NAMES = "; exhaustive comparison of the named code points with tables written from the standard"
ENV = "; metamorphic comparison with a child interpreter started under other flags (-O, -W error)"

TABLE = [
    ("C01", "exploration",
     PBT + " + exhaustive per-word sweeps against a reference header codec" + NAMES,
     "each 16-bit header word enumerated completely (3 x 65536) in both directions, boundary-weighted random 48-bit headers, "
     "id/psc word conversions, SpacePacket.pack, out-of-range refusals; the 2^48 product itself is sampled, not enumerated",
     ORACLE_NOTE, "DESIGN.md section 4 C01"),
    ("C02", "exploration",
     PBT + " against a reference PUS-C TC encoder; crafted-input generator for the rejection clause",
     "generated field tuples and application data up to the 65529-octet limit compared octet-for-octet with an independent encoder, "
     "round trip / equality / re-pack / space-packet view; declared lengths 7..12 with CRC patched over the declared extent must be refused",
     ORACLE_NOTE, "DESIGN.md section 4 C02"),
    ("C03", "exploration",
     PBT + " against a reference PUS-C TM encoder over generated timestamp lengths (decoder configuration)" + NAMES,
     "as C02 for telemetry with timestamp lengths 0..32, packet version, destination id, time reference; service-17 wrapper; "
     "declared lengths below 6+7+ts+2 with patched CRC must be refused",
     ORACLE_NOTE, "DESIGN.md section 4 C03"),
    ("C04", "fault_enumeration",
     "fault injection by enumeration: every single-bit flip and bursts of every length 2..16 at every admissible offset of generated CRC-protected packets; oracle = decoder must raise, reference CRC",
     "PUS TC, PUS TM and the 8 CFDP PDU kinds with the CRC flag (also after setter mutations): trailer == reference CRC-16 of everything before it, uncorrupted packet accepted, every "
     "admissible fault (all single bits, all start offsets x burst lengths <= 16 with drawn / exhaustive inner patterns) refused by the class decoder, the factory and check_pus_crc",
     ORACLE_NOTE + "; CRC-16/CCITT detects every burst <= 16 bits, so no probabilistic alarm; the unprotectable CFDP CRC-flag bit and the length-determining octets are excluded as the statement says",
     "DESIGN.md section 4 C04"),
    ("C05", "exploration",
     PBT + " + exhaustive flag x width grid and all (octet0, octet3) pairs against a reference header codec" + NAMES,
     "all 2048 header configurations packed/unpacked with boundary-weighted values, every strict prefix refused, all 2^16 flag/width octet "
     "pairs through the decoder, refusals of mismatching id widths / oversize length / version / width codes",
     ORACLE_NOTE, "DESIGN.md section 4 C05"),
    ("C06", "exploration",
     PBT + " per directive against reference directive encoders written from 727.0-B-5" + NAMES,
     "seven directives x generated parameter sets x header configurations (CRC, large file, 16 width pairs): octets == reference, data-field "
     "length, decode to same class / identical observed fields / == / identical re-pack; over-width sizes must fail to pack",
     ORACLE_NOTE, "DESIGN.md section 4 C06"),
    ("C07", "exploration",
     PBT + " against a reference File Data encoder; helper-function metamorphic check" + NAMES,
     "offset / segment metadata / file data (empty, tiny, 4096, near the 65535 limit) x header configurations incl. segmentation control and CRC: octets == reference, "
     "decoded data exactly as long as sent, lengths consistent after decode, == and re-pack; metadata > 63 refused; max-segment helper packs to exactly the maximum",
     ORACLE_NOTE, "DESIGN.md section 4 C07"),
    ("C08", "exploration",
     PBT + " against reference TLV/LV layouts + exhaustive status-code grid + foreign-type matrix" + NAMES,
     "generic TLV/LV over all types and value lengths 0..255 with continuation octets; six concrete TLVs over action x status x names (multi-octet characters) through "
     "unpack / from_tlv / holder; all 144 (action,status) pairs through the mapping helpers; every (class, foreign type, route) combination must raise the mismatch error",
     ORACLE_NOTE, "DESIGN.md section 4 C08"),
    ("C09", "exploration",
     PBT + ": metamorphic relation decode(unit + suffix) == decode(unit) over valid units from the reference encoders x structured suffixes; back-to-back walks by reported length",
     "valid units of every self-delimiting kind and all 8 PDU kinds (CRC on and off) followed by noise, another unit of the same kind, TLV-/LV-shaped and segment-request-sized octets: observed fields and reported "
     "length identical to the unit decoded alone (PDUs may instead be refused); 2..4 units back to back recovered by decode/advance; accepted noise buffers that begin with a unit decode like their first N octets",
     ORACLE_NOTE + "; observation functions read every user-visible field", "DESIGN.md section 4 C09"),
    ("C10", "exploration",
     PBT + " over a table of 55 public decoder entry points: arbitrary octets, exhaustive truncation points and header/length-field substitutions of valid units, CRC re-patching; oracle = allowed-exception table + watchdog" + ENV,
     "per decoder family: arbitrary and structured-noise buffers, every strict prefix of generated valid units (self-delimiting units must be refused), single-octet substitutions at every header index and "
     "length-field rewrites incl. consistently shortened units, with the checksum re-patched over the declared extent in half the cases; any outcome other than a return or a documented error class (or a 10 s watchdog expiry) is a violation",
     ORACLE_NOTE + "; the table of documented error classes in vf/excs.py; termination is observed with a watchdog, not proved", "DESIGN.md section 4 C10"),
    ("C11", "exploration",
     "model-based testing: one Hypothesis rule-based state machine per mutable packet class against reference encoders and a fresh-object model; plain @given for the caller-input clause",
     "setter / pack / decode-and-continue histories of up to 30 steps on PusTc, PusTm, EOF, Finished, Metadata, NAK, File Data, Keep Alive and USLP frames over all header configurations: after "
     "every step reported length == len(pack()), length field as the format requires, octets == freshly built object, pack repeatable; constructing and packing leaves caller-owned config/params untouched",
     ORACLE_NOTE, "DESIGN.md section 4 C11"),
    ("C12", "exploration",
     PBT + ": factory dispatch and holder casts over all kinds x width combinations, oracle = class identity + reference parser" + ENV,
     "8 PDU kinds x 16 (id width, seq width) pairs x CRC x large file through PduFactory.from_raw / inspectors / holder; all 64 (held kind, accessor) pairs per case",
     ORACLE_NOTE, "DESIGN.md section 4 C12"),
    ("C13", "exploration",
     "property-based testing: generated fragmentation schedules + exhaustive fragmentations of short streams + Hypothesis rule-based state machine; oracle = stream construction",
     "packet sequences with constructive garbage cut at generated positions (header-internal cuts over-weighted) with generated parse placement; every subset of cut positions for 5 short "
     "streams in the thorough tier; append/parse machine; after every parse: packets returned exactly once, in order, byte-identical, queue == not-yet-complete tail",
     ORACLE_NOTE, "DESIGN.md section 4 C13"),
    ("C14", "exploration",
     PBT + " + exhaustive day counts against integer calendar arithmetic (datetime/timedelta) with stated float tolerance" + NAMES,
     "all 65536 day counts, boundary-weighted milliseconds, datetimes over 1958..2137 at microsecond resolution, additions constructed to land on midnight and on the day limit; "
     "views, from_datetime, +timedelta, refusals",
     ORACLE_NOTE, "DESIGN.md section 4 C14"),
    ("C15", "exploration",
     PBT + " + exhaustive 16-bit halves of the request id against the reference TM encoder and an explicit source-data layout" + NAMES + ENV,
     "2 x 65536 request ids through pack/unpack/as_u32/from_sp_header, equality/hash iff on pairs differing in one bit, eight report kinds with all step/error widths, helper "
     "constructors, all 32 (subservice, step, failure) parameter-set combinations",
     ORACLE_NOTE, "DESIGN.md section 4 C15"),
    ("C16", "exploration",
     "model-based testing: Hypothesis rule-based state machine against a reference model of the documented tracker state machine",
     "histories of up to 50 add_tc / add_tm / remove_entry / remove_completed_entries calls over five telecommands (shared and unknown request ids included); every return value and the "
     "complete verif_dict compared with the model after every call",
     ORACLE_NOTE + "; the reference transition function in vf/props/c16.py", "DESIGN.md section 4 C16"),
    ("C17", "exploration",
     PBT + " against reference USLP header/frame encoders; managed parameters as generated decoder configuration" + NAMES,
     "headers over all VCF count lengths and boundary ids; frames over 8 rules x 10 protocol ids x optional insert zone/OCF/FECF x fixed/variable/truncated: octets == reference, "
     "length field after update, decode with matching parameters identical, five kinds of detectable mismatch raise the USLP errors",
     ORACLE_NOTE, "DESIGN.md section 4 C17"),
    ("C18", "exploration",
     PBT + " against reference reserved-message layouts; negative clause over arbitrary octets" + NAMES,
     "nine reserved message kinds with all id widths / enum values / name lengths from empty to the full TLV budget decoded back through four routes, every non-matching "
     "getter must return None; arbitrary (incl. non-UTF-8) contents must classify as not reserved without raising",
     ORACLE_NOTE, "DESIGN.md section 4 C18"),
    ("C19", "exploration",
     "exhaustive call histories (in-memory) + Hypothesis rule-based state machine with restart points (file-backed) against the model n mod 2^w",
     "in-memory provider: the complete 2^w+3-call history per width; file-backed: machine with next/current/reinstantiate on fresh and pre-seeded files, long runs with a restart at "
     "every call, file content inspected between calls; rejection of unreadable / out-of-range / missing files",
     ORACLE_NOTE + "; restart = new provider object on the same file between calls", "DESIGN.md section 4 C19"),
    ("C20", "exploration",
     PBT + " + exhaustive enumeration of widths 0/1/2 against an int.to_bytes oracle",
     "every (width,value) pair for widths 0,1,2 enumerated; widths 4/8 sampled boundary-weighted over the full range; "
     "equality/hash iff-relation on generated pairs; refusals; assignment sequences; conversion helpers vs two's-complement",
     ORACLE_NOTE, "DESIGN.md section 4 C20"),
]

_PENDING = "check not implemented yet in this round (planned in DESIGN.md section 4); will be claimed once its check exists"
NOT_YET = {f"C{i:02d}": _PENDING for i in range(1, 21)}
